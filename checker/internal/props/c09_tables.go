package props

import (
	"go/ast"
	"fmt"
	"go/token"
	"go/types"
	"strings"

	"verif/checker/internal/interp"
	"verif/checker/internal/load"
	"verif/checker/internal/tmpl"
)

func errModels(m *interp.Machine) {
	for _, name := range []string{"errors.New", "fmt.Errorf"} {
		m.Ext[name] = func(m *interp.Machine, pos token.Pos, recv interp.Value, args []interp.Value) (interp.Value, error) {
			var parts []string
			for _, a := range args {
				parts = append(parts, interp.TermOf(a))
			}
			return &interp.Opaque{Kind: "error", ID: strings.Join(parts, " ‖ ")}, nil
		}
	}
}

// lookupTable: decision table of Registry.LookupInterface over the kinds of
// declaration a requested name can denote (abstract go/types objects), by
// abstract interpretation of its current source.
func lookupTable(c *Ctx) { lookupTableMode(c, false) }

// lookupErrors: the failing rows of that table, for C19: a name that denotes nothing and a name that
// denotes something other than an interface both end in an error, and the error carries the name.
func lookupErrors(c *Ctx) { lookupTableMode(c, true) }

func lookupTableMode(c *Ctx, errorsOnly bool) {
	run, prog := c.Run, c.Prog
	fn := prog.LookupFunc(load.PkgRegistry, "Registry.LookupInterface")
	if fn == nil {
		run.Undecided("G-LOOKUP", "role", "internal/registry/registry.go", "LookupInterface not found")
		return
	}
	pos := prog.Pos(fn.Pos())
	iface := &interp.Opaque{Kind: "types.Type", ID: "iface", GoType: "*go/types.Interface", Attrs: map[string]interp.Value{"isInterface": true}}
	iface.Methods = mmap{"Complete": tmeth(iface), "Underlying": tmeth(iface)}
	structT := &interp.Opaque{Kind: "types.Type", ID: "struct", GoType: "*go/types.Struct", Attrs: map[string]interp.Value{"isInterface": false}}
	structT.Methods = mmap{"Underlying": tmeth(structT)}
	list := func(id string) *interp.Opaque {
		return &interp.Opaque{Kind: "types.TypeParamList", ID: id, GoType: "*go/types.TypeParamList"}
	}
	named := func(id string, under *interp.Opaque, tparams, targs interp.Value) *interp.Opaque {
		t := &interp.Opaque{Kind: "types.Type", ID: id, GoType: "*go/types.Named", Attrs: map[string]interp.Value{"isInterface": under.Attrs["isInterface"]}}
		t.Methods = mmap{"Underlying": tmeth(under), "TypeParams": tmeth(tparams), "TypeArgs": tmeth(targs), "String": tmeth(interp.Lit(id))}
		t.Attrs["unalias"] = t
		return t
	}
	alias := func(id string, rhs *interp.Opaque, tparams interp.Value) *interp.Opaque {
		t := &interp.Opaque{Kind: "types.Type", ID: id, GoType: "*go/types.Alias", Attrs: map[string]interp.Value{"isInterface": rhs.Attrs["isInterface"], "unalias": rhs}}
		under := rhs.Methods["Underlying"]
		t.Methods = mmap{"Underlying": under, "TypeParams": tmeth(tparams), "TypeArgs": tmeth(interp.NilV{}), "Rhs": tmeth(rhs), "String": tmeth(interp.Lit(id))}
		return t
	}
	nilV := interp.NilV{}
	gparams := list("params-of-G")
	aparams := list("params-of-the-alias")
	plain := named("I", iface, nilV, nilV)
	generic := named("G", iface, gparams, nilV)
	inst := named("G[string]", iface, gparams, list("args")) // TypeParams of an instantiated Named is the origin's list
	type tcase struct {
		desc      string
		typ       interp.Value // nil: name not found
		wantErr   bool
		wantParam interp.Value
	}
	cases := []tcase{
		{"a plain interface type", plain, false, nilV},
		{"a generic interface type", generic, false, gparams},
		{"an alias of an interface (type A = I)", alias("A", plain, nilV), false, nilV},
		{"an alias of an instantiated generic interface (type U = G[string])", alias("U", inst, nilV), false, nilV},
		{"a generic alias (type A[T any] = I[T])", alias("A[T]", plain, aparams), false, aparams},
		{"a struct type", named("S", structT, nilV, nilV), true, nil},
		{"an unknown name", nil, true, nil},
	}
	for _, tc := range cases {
		if errorsOnly && !tc.wantErr {
			continue
		}
		vals, errs := allPaths(prog, func(m *interp.Machine) (interp.Value, error) {
			tmpl.InstallTypesModels(m, prog)
			errModels(m)
			m.Ext["go/types.IsInterface"] = func(m *interp.Machine, p token.Pos, recv interp.Value, args []interp.Value) (interp.Value, error) {
				if o, ok := args[0].(*interp.Opaque); ok {
					if v, ok := o.Attrs["isInterface"]; ok {
						return v, nil
					}
				}
				return &interp.Unknown{Why: "types.IsInterface"}, nil
			}
			m.Ext["go/types.Unalias"] = func(m *interp.Machine, p token.Pos, recv interp.Value, args []interp.Value) (interp.Value, error) {
				if o, ok := args[0].(*interp.Opaque); ok {
					if v, ok := o.Attrs["unalias"]; ok {
						return v, nil
					}
					return o, nil
				}
				return &interp.Unknown{Why: "types.Unalias"}, nil
			}
			var obj interp.Value = interp.NilV{}
			if tc.typ != nil {
				obj = &interp.Opaque{Kind: "types.Object", ID: "obj", GoType: "*go/types.TypeName", Methods: mmap{"Type": tmeth(tc.typ), "Name": tmeth(interp.Lit("X"))}}
			}
			scope := &interp.Opaque{Kind: "types.Scope", ID: "scope", GoType: "*go/types.Scope", Methods: mmap{"Lookup": tmeth(obj)}}
			pkg := &interp.Opaque{Kind: "types.Package", ID: "src", GoType: "*go/types.Package", Methods: mmap{"Scope": tmeth(scope)}, Attrs: map[string]interp.Value{"path": interp.Lit("example.test/src"), "name": interp.Lit("src")}}
			// the registry is the one registry.New builds around this go/types package
			w, err := newRegWorldWith(prog, nil, "", pkg)
			if err != nil {
				return nil, err
			}
			for k, v := range m.Ext {
				if _, has := w.m.Ext[k]; !has || strings.HasPrefix(k, "go/types.") {
					w.m.Ext[k] = v
				}
			}
			w.m.Choices = m.Choices
			return w.m.CallFunc(token.NoPos, fn, w.reg, []interp.Value{interp.Tok("ƗX")})
		})
		ok := true
		detail := ""
		undecided := false
		for pi, got := range vals {
			if err := errs[pi]; err != nil {
				p := pos
				if u, isU := err.(*interp.ErrUndecided); isU && u.Pos.IsValid() {
					p = prog.Pos(u.Pos)
				}
				run.Undecided("G-LOOKUP/table", tc.desc, p, "LookupInterface cannot be evaluated for "+tc.desc+": "+err.Error())
				undecided = true
				break
			}
			tup, _ := got.(interp.Tuple)
			okp := len(tup) == 3
			d := interp.Show(got)
			if okp {
				_, errNil := tup[2].(interp.NilV)
				if tc.wantErr {
					okp = !errNil
				} else {
					okp = errNil && tup[0] == interp.Value(iface)
					if okp {
						if _, isNil := tc.wantParam.(interp.NilV); isNil {
							_, gotNil := tup[1].(interp.NilV)
							okp = gotNil
						} else {
							okp = tup[1] == tc.wantParam
						}
					}
				}
				d = fmt.Sprintf("(iface=%s, tparams=%s, err=%s)", interp.Show(tup[0]), interp.Show(tup[1]), interp.Show(tup[2]))
			}
			if !okp {
				ok = false
				detail = d
			} else if detail == "" {
				detail = d
			}
		}
		if undecided {
			continue
		}
		if errorsOnly {
			named := len(vals) > 0
			shown := ""
			for _, got := range vals {
				tup, _ := got.(interp.Tuple)
				if len(tup) != 3 {
					named = false
					continue
				}
				e, isErr := tup[2].(*interp.Opaque)
				if !isErr || !strings.Contains(e.ID, "ƗX") {
					named = false
				}
				shown = interp.Show(tup[2])
			}
			run.Check("G-ERR/guards", tc.desc, pos, ok, fmt.Sprintf("for a name denoting %s LookupInterface yields %s, want an error: the generator would go on with a nil or wrong type", tc.desc, detail))
			if ok {
				run.Check("G-ERR/names-the-type", tc.desc, pos, named, fmt.Sprintf("for a name denoting %s the lookup failure is reported as %s, which does not carry the requested name", tc.desc, shown))
			}
			continue
		}
		want := "an error naming the type"
		if !tc.wantErr {
			want = "(the interface, " + interp.Show(tc.wantParam) + ", nil)"
		}
		run.Check("G-LOOKUP/table", tc.desc, pos, ok, fmt.Sprintf("for a name denoting %s LookupInterface yields %s, want %s — the mock must carry exactly the type parameters of the requested name itself", tc.desc, detail, want))
	}
	if errorsOnly {
		run.Floor("G-ERR/guards", 2)
		run.Floor("G-ERR/names-the-type", 2)
		return
	}
	run.Floor("G-LOOKUP/table", 6)
}

// representativeTable: decision table of the function that chooses the type
// argument of the self-check line, over the shapes of a constraint.
func representativeTable(c *Ctx) {
	run, prog := c.Run, c.Prog
	// by role: the moq function whose result fills TypeParamData.Constraint
	fn := tmpl.CalleeOfField(prog, "TypeParamData", "Constraint")
	if fn == nil {
		// the data model has no such field (the type arguments are rendered into a text): by what it does —
		// the one function of pkg/moq that returns a types.Type and walks the embedded types of an interface
		var cands []*types.Func
		if pk := prog.Moq[load.PkgMoq]; pk != nil {
			for _, f := range pk.Syntax {
				for _, d := range f.Decls {
					fd, ok := d.(*ast.FuncDecl)
					if !ok || fd.Body == nil {
						continue
					}
					tf, _ := pk.TypesInfo.Defs[fd.Name].(*types.Func)
					if tf == nil {
						continue
					}
					sig := tf.Type().(*types.Signature)
					if sig.Results().Len() != 1 || sig.Results().At(0).Type().String() != "go/types.Type" {
						continue
					}
					walks := false
					ast.Inspect(fd.Body, func(n ast.Node) bool {
						if sel, ok := n.(*ast.SelectorExpr); ok && sel.Sel.Name == "EmbeddedType" {
							if o, ok := pk.TypesInfo.Uses[sel.Sel].(*types.Func); ok && o.Pkg() != nil && o.Pkg().Path() == "go/types" {
								walks = true
							}
						}
						return !walks
					})
					if walks {
						cands = append(cands, tf)
					}
				}
			}
		}
		if len(cands) == 1 {
			fn = cands[0]
		}
	}
	if fn == nil {
		run.Undecided("G-REPR", "role", "pkg/moq/moq.go", "the function choosing the representative type argument (explicitConstraintType) was not found")
		return
	}
	pos := prog.Pos(fn.Pos())
	basic := func(name string) *interp.Opaque { return basicT(name, types.IsInteger) }
	union := func(id string, first *interp.Opaque) *interp.Opaque {
		term := &interp.Opaque{Kind: "types.Term", ID: id + ".term0", GoType: "*go/types.Term", Methods: mmap{"Type": tmeth(first), "Tilde": tmeth(true)}}
		return &interp.Opaque{Kind: "types.Type", ID: id, GoType: "*go/types.Union", Methods: mmap{
			"Len": tmeth(int64(2)),
			"Term": func(m *interp.Machine, p token.Pos, args []interp.Value) (interp.Value, error) {
				if i, ok := args[0].(int64); ok && i == 0 {
					return term, nil
				}
				return &interp.Opaque{Kind: "types.Term", ID: id + ".termN", GoType: "*go/types.Term", Methods: mmap{"Type": tmeth(basicT("otherterm", types.IsString))}}, nil
			},
		}}
	}
	ifaceWith := func(id string, embedded ...*interp.Opaque) *interp.Opaque {
		t := &interp.Opaque{Kind: "types.Type", ID: id, GoType: "*go/types.Interface"}
		t.Methods = mmap{
			"NumEmbeddeds": tmeth(int64(len(embedded))),
			"EmbeddedType": func(m *interp.Machine, p token.Pos, args []interp.Value) (interp.Value, error) {
				i, ok := args[0].(int64)
				if !ok || i < 0 || int(i) >= len(embedded) {
					return &interp.Unknown{Why: "EmbeddedType out of range"}, nil
				}
				return embedded[i], nil
			},
			"Underlying": tmeth(nil),
		}
		sq := &interp.Seq{}
		for _, e := range embedded {
			sq.Elems = append(sq.Elems, e)
		}
		t.Methods["EmbeddedTypes"] = tmeth(sq)
		t.Methods["Underlying"] = tmeth(t)
		return t
	}
	stringer := namedT("Stringer")
	i64 := basic("int64")
	str := basicT("string", types.IsString)
	type tcase struct {
		desc  string
		cons  *interp.Opaque
		allow []interp.Value // acceptable results
	}
	nilV := interp.Value(interp.NilV{})
	cases := []tcase{
		{"any (no embedded types)", ifaceWith("any"), []interp.Value{nilV}},
		{"a method interface embedding a named interface", ifaceWith("stringer-ish", stringer), []interp.Value{nilV}},
		{"interface{ int64 }", ifaceWith("basic", i64), []interp.Value{i64}},
		{"~string | ~[]byte", ifaceWith("union", union("u1", str)), []interp.Value{str}},
		{"interface{ Stringer; ~int64 | ~string }", ifaceWith("mixed", stringer, union("u2", i64)), []interp.Value{i64}},
	}
	for _, tc := range cases {
		vr := &interp.Opaque{Kind: "types.Var", ID: "tp", GoType: "*go/types.Var", Attrs: map[string]interp.Value{"type": tc.cons, "name": interp.Tok("Ƭ")}}
		vals, errs := allPaths(prog, func(m *interp.Machine) (interp.Value, error) {
			tmpl.InstallTypesModels(m, prog)
			errModels(m)
			// the constraint is handed over wrapped in a variable (types.NewParam) or as the type itself
			var arg interp.Value = vr
			if sig, ok := fn.Type().(*types.Signature); ok && sig.Params().Len() == 1 {
				if _, isIface := sig.Params().At(0).Type().Underlying().(*types.Interface); isIface {
					arg = tc.cons
				}
			}
			return m.CallFunc(token.NoPos, fn, nil, []interp.Value{arg})
		})
		ok := true
		var got interp.Value
		undecided := false
		for pi, g := range vals {
			if err := errs[pi]; err != nil {
				p := pos
				if u, isU := err.(*interp.ErrUndecided); isU && u.Pos.IsValid() {
					p = prog.Pos(u.Pos)
				}
				run.Undecided("G-REPR/table", tc.desc, p, "the representative type for constraint "+tc.desc+" cannot be evaluated on every path: "+err.Error())
				undecided = true
				break
			}
			if g == nil {
				g = interp.NilV{}
			}
			okp := false
			for _, a := range tc.allow {
				if g == a {
					okp = true
				}
				if _, isNil := a.(interp.NilV); isNil {
					if _, gotNil := g.(interp.NilV); gotNil {
						okp = true
					}
				}
			}
			if !okp {
				ok = false
				got = g
			} else if got == nil {
				got = g
			}
		}
		if undecided {
			continue
		}
		run.Check("G-REPR/table", tc.desc, pos, ok, fmt.Sprintf("for the constraint %s the representative type argument is %s; it must be a member the constraint itself lists (its embedded basic type or the first term of its union) or absent — any other type need not satisfy the constraint and the self-check line would not compile", tc.desc, interp.Show(got)))
	}
	run.Floor("G-REPR/table", 5)
}

// parseTable: decision table of the argument form "Interface[:Name]", read off (*Mocker).Mock itself
// (engine M): the name the registry is asked for and the two names the template data carries, for an
// argument given as a symbolic string. Where and how the argument is split is free.
func parseTable(c *Ctx) {
	run, prog := c.Run, c.Prog
	pos := "pkg/moq/moq.go"
	if fn := prog.LookupFunc(load.PkgMoq, "Mocker.Mock"); fn != nil {
		pos = prog.Pos(fn.Pos())
	}
	colon := interp.Lit(":")
	cat := func(parts ...*interp.Sym) *interp.Sym {
		out := &interp.Sym{}
		for _, p := range parts {
			out = interp.Concat(out, p)
		}
		return out
	}
	N, X := interp.Tok("Ɯ"), interp.Tok("ƶ")
	cases := []struct {
		desc string
		arg  func(I *interp.Sym) *interp.Sym
		mock func(iface string) string
	}{
		{"Interface", func(I *interp.Sym) *interp.Sym { return I }, func(iface string) string { return iface + "Mock" }},
		{"Interface:Name", func(I *interp.Sym) *interp.Sym { return cat(I, colon, N) }, func(string) string { return "Ɯ" }},
		{"Interface:Name:more (split at the first colon only)", func(I *interp.Sym) *interp.Sym { return cat(I, colon, N, colon, X) }, func(string) string { return "Ɯ:ƶ" }},
	}
	for _, tc := range cases {
		model := tmpl.BuildModel(tmpl.Env{Mocks: []tmpl.MockShape{{Aliased: true, Methods: []tmpl.MethodShape{{}}}}})
		if len(model.Mocks) != 1 {
			run.Undecided("G-PARSE/table", tc.desc, pos, "the abstract package has no single-interface model")
			continue
		}
		iface := model.Mocks[0].IfaceName
		model.Mocks[0].Arg = tc.arg(interp.Tok(iface))
		model.Mocks[0].MockName = tc.mock(iface)
		dvs, err := tmpl.Derive(prog, model, "")
		if err != nil {
			run.Undecided("G-PARSE/table", tc.desc, pos, "(*Mocker).Mock cannot be interpreted on this argument: "+err.Error())
			continue
		}
		ok, n := true, 0
		gi, gm, gl := "?", "?", "?"
		for _, dv := range dvs {
			i, m, lookups, has := tmpl.MockNamesOf(dv, 0)
			if !has {
				continue
			}
			n++
			l := strings.Join(lookups, ",")
			if i != iface || m != tc.mock(iface) || l != iface {
				ok = false
			}
			if n == 1 || !ok {
				gi, gm, gl = i, m, l
			}
		}
		if n == 0 {
			run.Undecided("G-PARSE/table", tc.desc, pos, "no path through (*Mocker).Mock reaches the template with this argument")
			continue
		}
		run.Check("G-PARSE/table", tc.desc, pos, ok, fmt.Sprintf("the argument %q looks up %q and yields interface %q, mock %q; want %q looked up and named, and mock %q (the mock is named <Interface>Mock, or exactly what follows the first colon)", model.Mocks[0].Arg.Flat(), gl, gi, gm, iface, tc.mock(iface)))
	}
	run.Floor("G-PARSE/table", 3)
}

// allPaths evaluates f once per combination of unknown conditions met on the
// way (a table function may decide on something the abstract value does not
// fix; every outcome must then satisfy the table).
func allPaths(prog *load.Program, f func(m *interp.Machine) (interp.Value, error)) (vals []interp.Value, errs []error) {
	choices := interp.NewChoices(64)
	for {
		m := interp.New(prog)
		m.Choices = choices
		v, err := f(m)
		vals = append(vals, v)
		errs = append(errs, err)
		more, overflow := choices.Advance()
		if overflow {
			errs = append(errs, fmt.Errorf("more than 64 combinations of input-dependent conditions"))
			vals = append(vals, nil)
			return
		}
		if !more {
			return
		}
	}
}
