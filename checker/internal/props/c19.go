package props

import (
	"fmt"
	"os"
	"time"

	"verif/checker/internal/gen"
	"verif/checker/internal/tmpl"
)

func init() {
	register("C19", "other", func(c *Ctx) {
		c.Run.Explainf("C19 (every invocation terminates with output or a diagnostic): the obligation table of moq's four packages is closed — every construct that can panic or fail to terminate (index and slice expressions, unchecked type assertions, stores into possibly nil maps, dereferences of pointers that come with an ok flag, indexed go/types accessors At/Method/Field/Term/EmbeddedType/ExplicitMethod, integer division, explicit panic, `for` without condition, calls inside a call-graph cycle) is enumerated from the type-checked syntax and either discharged by a rule (dominating length/emptiness/ok guard shown by go/cfg exploration under the negated assumption; loop bound equal to the matching Len/Num accessor on the same receiver or to the length the slice was made with; nil-safe method; recursion whose argument is a strict component of the switched value) or matched with a frozen table line that carries a one-line reason (go/types invariants, SplitN/Split contracts). New sites, changed operands and lost guards are reported. Lookup errors carry the requested name; errors on the Mock path are propagated (G-MOCK/error-returned); template execution cannot fail on a missing field (every field chain resolves in the abstract expansion). Of promptness only one necessary condition is decided: no recursive function evaluates the same recursive call twice on a path (no exponential blow-up in the nesting depth of a type). No function of the generator calls, while it holds a sync mutex on every path to the call, a function that locks the same mutex again through calls on the same receiver (G-LOCK/reentrant; today the generator owns no mutex, a planted example is analysed on every run). NOT decided: promptness in general and termination inside packages.Load / go list / go/format.")
		t0 := time.Now()
		tick := func(what string) {
			if os.Getenv("MOQLINT_TIMING") != "" {
				fmt.Fprintf(os.Stderr, "timing %s %v\n", what, time.Since(t0))
			}
			t0 = time.Now()
		}
		gen.CLIIndexed = cliIndexOracle(c)
		gen.CheckPanics(c.Run, c.Prog)
		gen.CLIIndexed = nil
		tick("panics")
		lookupErrors(c)
		gen.CheckLoopsPureUntilExit(c.Run, c.Prog)
		gen.CheckRecursionFanout(c.Run, c.Prog)
		loadErrorsTable(c)
		conflictTerminationTable(c)
		cliNoReadOfOut(c)
		gen.CheckGeneratorLocks(c.Run, c.Prog)
		gen.PositiveControlLocks(c.Run, c.Prog)
		tick("others")
		gen.PositiveControlPanics(c.Run, c.Prog)
		tick("controls")
		c.RunSkeletons(SkelOpts{Rules: []string{"G-MOCK/error-returned", "G-MOCK/fail-stop"}, Notes: []string{"H-PANIC"}, Env: smallEnv, Formatters: tmpl.Formatters})
		tick("skeletons")
	})
}
