// Package props wires rules to the 20 properties.
package props

import (
	"fmt"
	"go/token"
	"runtime"
	"sort"
	"strings"
	"sync"
	"text/template/parse"

	"verif/checker/internal/core"
	"verif/checker/internal/gen"
	"verif/checker/internal/interp"
	"verif/checker/internal/load"
	"verif/checker/internal/skel"
	"verif/checker/internal/tmpl"
)

// Ctx is the shared context of one property run.
type Ctx struct {
	Prog *load.Program
	Run  *core.Run
	Tier string
	src  *tmpl.Source
	// the interpretation of package main, once per run
	cliDone bool
	// namingIdentOnly: of the default-name table only "the name is an identifier" is an obligation (C01)
	namingIdentOnly bool
	// collisionRows: the rows about collisions the name allocation does not resolve (known findings D19–D21)
	// are obligations of the properties that state distinctness (C12) and compilability (C01) only
	collisionRows bool
	cliPaths        []*cliPath
}

func (c *Ctx) Source() (*tmpl.Source, error) {
	if c.src != nil {
		return c.src, nil
	}
	s, err := tmpl.Extract(c.Prog)
	if err != nil {
		return nil, err
	}
	c.src = s
	return s, nil
}

func methodShapes(maxParams, maxResults int) []tmpl.MethodShape {
	var out []tmpl.MethodShape
	for p := 0; p <= maxParams; p++ {
		for _, v := range []bool{false, true} {
			if v && p == 0 {
				continue
			}
			for r := 0; r <= maxResults; r++ {
				out = append(out, tmpl.MethodShape{NParams: p, Variadic: v, NResults: r})
			}
		}
	}
	return out
}

// Family enumerates the abstract environments: all flag combinations, both
// destination modes, and mock/method shapes up to the tier's bounds.
func Family(tier string, extraLens []int) []tmpl.Env {
	maxP, maxR := 2, 2
	if tier == "thorough" {
		maxP, maxR = 3, 3
	}
	for _, n := range extraLens {
		if n+1 > maxP && n < 16 {
			maxP = n + 1
		}
	}
	shapes := methodShapes(maxP, maxR)
	var envs0 []tmpl.Env
	var mockLists [][]tmpl.MockShape
	one := func(m tmpl.MockShape) { mockLists = append(mockLists, []tmpl.MockShape{m}) }
	one(tmpl.MockShape{})
	for _, s := range shapes {
		one(tmpl.MockShape{Methods: []tmpl.MethodShape{s}})
	}
	big := tmpl.MethodShape{NParams: 2, Variadic: true, NResults: 2}
	nul := tmpl.MethodShape{}
	one(tmpl.MockShape{Methods: []tmpl.MethodShape{nul, big}})
	one(tmpl.MockShape{Methods: []tmpl.MethodShape{{NParams: 1, NResults: 1}, {NParams: 1, Variadic: true}}})
	// variadic tails of element type any: dropping the `...` spread still type-checks there
	for p := 1; p <= maxP; p++ {
		one(tmpl.MockShape{Methods: []tmpl.MethodShape{{NParams: p, Variadic: true, AnyTail: true, NResults: 0}, {NParams: p, Variadic: true, AnyTail: true, NResults: 2}}})
	}
	// generic mocks
	for _, tps := range [][]tmpl.TPShape{{{}}, {{Explicit: true}}, {{}, {Explicit: true}}} {
		one(tmpl.MockShape{TypeParams: tps, Methods: []tmpl.MethodShape{big, nul}})
		one(tmpl.MockShape{TypeParams: tps, Methods: []tmpl.MethodShape{{NParams: 1, NResults: 1}}})
		one(tmpl.MockShape{TypeParams: tps})
	}
	// several mocks in one run
	mockLists = append(mockLists,
		[]tmpl.MockShape{{}, {Methods: []tmpl.MethodShape{big}}},
		[]tmpl.MockShape{{Methods: []tmpl.MethodShape{{NParams: 1, NResults: 1}}}, {TypeParams: []tmpl.TPShape{{}}, Methods: []tmpl.MethodShape{nul, big}}},
		[]tmpl.MockShape{{}, {}},
		[]tmpl.MockShape{{Methods: []tmpl.MethodShape{big}}, {}},
		// name pairs "Iface:Name", and the same interface requested twice under two names
		[]tmpl.MockShape{{Aliased: true, Methods: []tmpl.MethodShape{{NParams: 1, NResults: 1}}}, {Methods: []tmpl.MethodShape{nul}}},
		[]tmpl.MockShape{{Aliased: true, Methods: []tmpl.MethodShape{big}}, {Aliased: true, DupOfFirst: true}},
		[]tmpl.MockShape{{Aliased: true, Methods: []tmpl.MethodShape{nul}}, {Methods: []tmpl.MethodShape{big}}, {DupOfFirst: true}},
	)
	// "Iface:Iface" — the mock is to carry the interface's own name (only sensible in another package)
	for bits := 0; bits < 8; bits++ {
		envs0 = append(envs0, tmpl.Env{Stub: bits&1 != 0, SkipEnsure: bits&2 != 0, WithResets: bits&4 != 0, External: true,
			Mocks: []tmpl.MockShape{{Aliased: true, SameName: true, Methods: []tmpl.MethodShape{{NParams: 1, NResults: 1}}}, {Methods: []tmpl.MethodShape{nul}}}})
	}
	if tier == "thorough" {
		three := []tmpl.MethodShape{{NParams: 3, NResults: 1}, nul, {NParams: 1, Variadic: true, NResults: 3}}
		one(tmpl.MockShape{Methods: three})
		one(tmpl.MockShape{TypeParams: []tmpl.TPShape{{}, {Explicit: true}, {}}, Methods: three})
		mockLists = append(mockLists, []tmpl.MockShape{{Methods: three}, {}, {TypeParams: []tmpl.TPShape{{Explicit: true}}, Methods: []tmpl.MethodShape{big}}})
		for _, a := range shapes {
			for _, b := range shapes {
				if a != b && (a.NParams+b.NParams)%2 == 0 {
					one(tmpl.MockShape{Methods: []tmpl.MethodShape{a, b}})
				}
			}
		}
	}
	envs := envs0
	for _, ml := range mockLists {
		for bits := 0; bits < 16; bits++ {
			e := tmpl.Env{Stub: bits&1 != 0, SkipEnsure: bits&2 != 0, WithResets: bits&4 != 0, External: bits&8 != 0, Mocks: ml}
			envs = append(envs, e)
		}
	}
	// -pkg <src>_test and -pkg <src> (explicitly the source package)
	for bits := 0; bits < 8; bits++ {
		for _, ms := range []tmpl.MockShape{{Methods: []tmpl.MethodShape{big, nul}}, {}} {
			envs = append(envs, tmpl.Env{Stub: bits&1 != 0, SkipEnsure: bits&2 != 0, WithResets: bits&4 != 0, External: true, DestTest: true, Mocks: []tmpl.MockShape{ms}})
			envs = append(envs, tmpl.Env{Stub: bits&1 != 0, SkipEnsure: bits&2 != 0, WithResets: bits&4 != 0, ExplicitSame: true, Mocks: []tmpl.MockShape{ms}})
		}
	}
	// sync under an alias (a source package that imports something else named sync)
	for bits := 0; bits < 8; bits++ {
		envs = append(envs, tmpl.Env{Stub: bits&1 != 0, WithResets: bits&2 != 0, External: bits&4 != 0, SyncAliased: true,
			Mocks: []tmpl.MockShape{{Methods: []tmpl.MethodShape{big, nul}}}})
	}
	return envs
}

// SkelOpts selects what a property takes from the skeleton analysis.
type SkelOpts struct {
	Rules        []string              // rule prefixes that belong to the property
	Env          func(e tmpl.Env) bool // environments that matter (nil: all)
	TypeErrIsOwn bool                  // a skeleton that does not type-check is this property's violation (C01) rather than "undecided"
	Notes        []string              // interpreter note rules that belong to the property (G-RENDER, H-PANIC)
	KeepOb       func(o skel.Ob, e tmpl.Env) bool
	Formatters   []string // formatter values to derive with (default: only "")
	NoExpand     bool     // only the generator-side derivation is needed
	// UnknownOptions: Config fields beyond the six of the flag table are unknown rather than zero in the
	// derivation (the properties about what the options switch on and off, and about file effects)
	UnknownOptions bool
}

func hasPrefix(s string, ps []string) bool {
	for _, p := range ps {
		if strings.HasPrefix(s, p) {
			return true
		}
	}
	return false
}

type skelOut struct {
	skip    bool
	derived []*tmpl.Derived
	env     tmpl.Env
	sk      *tmpl.Skeleton
	unit    *skel.Unit
	res     *skel.Result
	typed   bool
	err     error
}

// RunSkeletons expands the template over the family and feeds the rule
// results that belong to the property into the run.
func (c *Ctx) RunSkeletons(opt SkelOpts) {
	run := c.Run
	src, err := c.Source()
	if err != nil {
		run.Undecided("T-EXTRACT", "template", "internal/template/template.go", err.Error())
		return
	}
	run.Count("template_text_nodes", src.NodeCount["text"])
	run.Count("template_action_nodes", src.NodeCount["action"])
	run.Count("template_if_nodes", src.NodeCount["if"])
	run.Count("template_range_nodes", src.NodeCount["range"])
	lens, uerr := uniformity(src)
	lens = append(lens, gen.HelperLengthConstants(c.Prog)...)
	for _, e := range uerr {
		run.Undecided("S-UNIFORM", e.key, src.Line(e.off), e.msg)
	}
	run.Check("S-UNIFORM", "range-bodies", src.Line(0), len(uerr) == 0, "")
	envs := Family(c.Tier, lens)
	if opt.Env != nil {
		var keep []tmpl.Env
		for _, e := range envs {
			if opt.Env(e) {
				keep = append(keep, e)
			}
		}
		envs = keep
	}
	run.Count("environments", len(envs))
	outs := make([][]skelOut, len(envs))
	visited := make([]map[parse.Node]bool, len(envs))
	var wg sync.WaitGroup
	sem := make(chan struct{}, runtime.NumCPU())
	for i := range envs {
		wg.Add(1)
		sem <- struct{}{}
		go func(i int) {
			defer wg.Done()
			defer func() { <-sem }()
			defer func() {
				if p := recover(); p != nil {
					outs[i] = []skelOut{{env: envs[i], err: fmt.Errorf("checker panic: %v", p)}}
				}
			}()
			visited[i] = map[parse.Node]bool{}
			model := tmpl.BuildModel(envs[i])
			model.UnknownOptions = opt.UnknownOptions
			// the data is derived from the generator: (*Mocker).Mock interpreted on the abstract package
			dvs, err := tmpl.Derive(c.Prog, model, "")
			if err != nil {
				outs[i] = []skelOut{{env: envs[i], err: err}}
				return
			}
			for _, f := range opt.Formatters {
				if f == "" {
					continue
				}
				more, err := tmpl.Derive(c.Prog, model, f)
				if err != nil {
					outs[i] = []skelOut{{env: envs[i], err: err}}
					return
				}
				dvs = append(dvs, more...)
			}
			if hasPrefix("G-DATA/name-final", opt.Rules) {
				// once more, with AddVar marking earlier names as possibly renamed (see tmpl.DeriveProbe)
				probe, err := tmpl.DeriveProbe(c.Prog, model)
				if err != nil {
					outs[i] = []skelOut{{env: envs[i], err: err}}
					return
				}
				dvs = append(dvs, probe...)
			}
			if opt.NoExpand {
				outs[i] = []skelOut{{env: envs[i], derived: dvs, skip: true}}
				return
			}
			var data *interp.Struct
			for _, dv := range dvs {
				if !dv.Failed && dv.Data != nil && data == nil {
					data = dv.Data
				}
			}
			if data == nil {
				outs[i] = []skelOut{{env: envs[i], derived: dvs, err: &tmpl.Undecided{Msg: "no successful path through (*Mocker).Mock yields well-formed template data for this environment (see the G-DATA/G-MOCK findings)"}}}
				return
			}
			model = tmpl.ModelFromData(model, data)
			sks, err := tmpl.ExpandData(src, func() *interp.Machine {
				m := interp.New(c.Prog)
				tmpl.InstallTypesModels(m, c.Prog)
				return m
			}, model, data, visited[i])
			if err != nil {
				outs[i] = []skelOut{{env: envs[i], derived: dvs, err: err}}
				return
			}
			for k, sk := range sks {
				u := skel.Build(c.Prog, sk)
				res, typed := skel.Analyze(u)
				o := skelOut{env: envs[i], sk: sk, unit: u, res: res, typed: typed}
				if k == 0 {
					o.derived = dvs
				}
				outs[i] = append(outs[i], o)
			}
		}(i)
	}
	wg.Wait()
	// template node coverage (meaningless when some environment could not be expanded at all:
	// the S-EXPAND / derivation findings are the root cause then)
	expandFailed := false
	for i := range outs {
		for _, o := range outs[i] {
			if o.err != nil {
				expandFailed = true
			}
		}
	}
	all := map[parse.Node]bool{}
	for _, v := range visited {
		for n := range v {
			all[n] = true
		}
	}
	unreached := 0
	var walk func(n parse.Node)
	walk = func(n parse.Node) {
		switch n := n.(type) {
		case *parse.ListNode:
			if n == nil {
				return
			}
			for _, x := range n.Nodes {
				walk(x)
			}
		case *parse.IfNode:
			walk(n.List)
			walk(n.ElseList)
		case *parse.RangeNode:
			walk(n.List)
			walk(n.ElseList)
		case *parse.WithNode:
			walk(n.List)
			walk(n.ElseList)
		case *parse.TextNode, *parse.ActionNode:
			if !all[n] && opt.Env == nil && !opt.NoExpand && !expandFailed {
				unreached++
				run.Undecided("S-COVER", fmt.Sprintf("unreached:%s", strings.TrimSpace(truncate(n.String(), 40))), src.Line(int(n.Position())), "no environment of the family reaches this template node: its output is not analysed")
			}
		}
	}
	walk(src.Tree.Root)
	if opt.Env == nil && !opt.NoExpand && !expandFailed {
		run.Check("S-COVER", "all-template-nodes-reached", src.Line(0), unreached == 0, "")
	}
	mockPos := "pkg/moq/moq.go"
	if fn := c.Prog.LookupFunc(load.PkgMoq, "Mocker.Mock"); fn != nil {
		mockPos = c.Prog.Pos(fn.Pos())
	}
	npaths := 0
	nsk, distinct := 0, map[string]bool{}
	sampleShown := 0
	for i := range outs {
		for _, o := range outs[i] {
			envs := o.env.String()
			npaths += len(o.derived)
			for _, dv := range o.derived {
				for _, n := range dv.Notes {
					if hasPrefix(n.Rule, opt.Notes) {
						run.Violate(core.Violation{Rule: n.Rule, Key: n.Key, Pos: c.Prog.Pos(n.Pos), Msg: n.Msg, Env: envs})
					}
				}
				for _, ob := range dv.Obs {
					if !hasPrefix(ob.Rule, opt.Rules) {
						continue
					}
					if ob.OK {
						run.Check(ob.Rule, ob.Key, mockPos, true, "")
					} else {
						run.Fail(ob.Rule, ob.Key, mockPos, core.Violation{Msg: ob.Msg, Env: envs + " path{" + dv.Choices + "}"})
					}
				}
			}
			if o.skip {
				continue
			}
			if o.err != nil {
				pos, msg := src.Line(0), o.err.Error()
				if u, ok := o.err.(*tmpl.Undecided); ok {
					pos = src.Line(u.TplOff)
					if u.GoPos.IsValid() {
						msg += " (at " + c.Prog.Pos(u.GoPos) + ")"
					}
				}
				run.Violate(core.Violation{Rule: "S-EXPAND", Key: "S-EXPAND:" + skel.Abstract(truncate(msg, 120)), Kind: "undecided", Pos: pos, Msg: "abstract expansion of the template is undecided: " + msg, Env: envs})
				continue
			}
			nsk++
			distinct[o.sk.Text] = true
			// notes (G-RENDER ...)
			for _, n := range o.sk.Notes {
				if hasPrefix(n.Rule, opt.Notes) {
					pos := c.Prog.Pos(n.Pos)
					if off, inText := src.OffsetOf(n.Pos); inText {
						pos = src.Line(off)
					}
					run.Violate(core.Violation{Rule: n.Rule, Key: n.Key, Pos: pos, Msg: n.Msg, Env: envs})
				}
			}
			if !o.typed {
				for _, ob := range o.res.Obs {
					pos := c.skelPos(src, o, ob.Pos)
					if opt.TypeErrIsOwn {
						run.Violate(core.Violation{Rule: ob.Rule, Key: ob.Rule + ":" + ob.Key, Pos: pos, Msg: ob.Msg, Env: envs})
					} else {
						run.Violate(core.Violation{Rule: "K-TYPE", Key: "K-TYPE:undecided:" + ob.Key, Kind: "undecided", Pos: pos, Msg: "the skeleton for this environment does not type-check, so the flow rules of this property cannot be evaluated on it: " + ob.Msg, Env: envs})
					}
				}
				continue
			}
			for _, ob := range o.res.Obs {
				if !hasPrefix(ob.Rule, opt.Rules) {
					continue
				}
				if opt.KeepOb != nil && !opt.KeepOb(ob, o.env) {
					continue
				}
				pos := c.skelPos(src, o, ob.Pos)
				if ob.OK {
					run.Check(ob.Rule, ob.Key, pos, true, "")
				} else {
					run.Fail(ob.Rule, ob.Key, pos, core.Violation{Msg: ob.Msg, Env: envs, Path: ob.Path})
				}
			}
			if sampleShown < 2 && len(o.env.Mocks) == 1 && len(o.env.Mocks[0].Methods) == 1 && o.env.Mocks[0].Methods[0].NParams == 2 && o.env.Stub == (sampleShown == 1) {
				sampleShown++
				run.Sample(map[string]any{"environment": envs, "skeleton_excerpt": excerptMethod(o.sk.Text)})
			}
		}
	}
	// positive controls for the skeleton rules of this property
	if !opt.NoExpand {
		nctl, problems := skel.RunControls(c.Prog, opt.Rules)
		run.Count("positive_controls_run", nctl)
		for _, p := range problems {
			run.Undecided("CONTROL/skeleton-rules", skel.Abstract(truncate(p, 100)), "checker/internal/skel/controls.go", p)
		}
		if nctl > 0 && len(problems) == 0 {
			run.Check("CONTROL/skeleton-rules", "planted-defects-reported", "checker/internal/skel/controls.go", true, "")
		}
	}
	run.Count("mock_paths_interpreted", npaths)
	run.Count("skeletons", nsk)
	run.Count("skeletons_distinct", len(distinct))
}

func excerptMethod(text string) string {
	i := strings.Index(text, "\nfunc (mock ")
	if i < 0 {
		return truncate(text, 600)
	}
	j := strings.Index(text[i+1:], "\n}\n")
	if j < 0 {
		return truncate(text[i:], 900)
	}
	return text[i+1 : i+1+j+2]
}

func truncate(s string, n int) string {
	if len(s) <= n {
		return s
	}
	return s[:n] + "…"
}

func (c *Ctx) skelPos(src *tmpl.Source, o skelOut, pos token.Pos) string {
	if o.unit == nil || !pos.IsValid() {
		return src.Line(0)
	}
	off := o.unit.Offset(pos)
	if off < 0 {
		return src.Line(0)
	}
	return src.Line(o.sk.TemplateOffset(off))
}

// ---------------------------------------------------------------------
// S-3 uniformity obligations on the template

type uniErr struct {
	key string
	off int
	msg string
}

// uniformity checks the two syntactic obligations that make small lists
// sufficient and returns integer literals used in comparisons (they extend
// the explored list lengths).
func uniformity(src *tmpl.Source) (lens []int, errs []uniErr) {
	type rangeCtx struct {
		indexVar string
		elemVar  string
		over     string // last field of the ranged pipeline
	}
	var stack []rangeCtx
	var visitPipe func(p *parse.PipeNode, soleIfOperand bool)
	var visitNode func(n parse.Node)
	checkVar := func(v *parse.VariableNode, soleIfOperand bool) {
		name := v.Ident[0]
		for _, rc := range stack {
			if rc.indexVar == name && !(soleIfOperand && len(v.Ident) == 1) {
				errs = append(errs, uniErr{"index-use:" + name, int(v.Position()), fmt.Sprintf("range index %s is used other than as the sole operand of an if: iterations are then not of just two kinds (first, later) and small lists are not representative", name)})
			}
		}
		// inside range over .Methods: the enclosing mock variable may be used only for names and type parameters
		inMethods := false
		for _, rc := range stack {
			if rc.over == "Methods" {
				inMethods = true
			}
		}
		if inMethods && len(v.Ident) >= 2 {
			switch v.Ident[1] {
			case "Methods", "Mocks":
				errs = append(errs, uniErr{"cross-method:" + strings.Join(v.Ident, "."), int(v.Position()), fmt.Sprintf("the body of a range over methods refers to %s: method bodies are then not independent of the other methods and shapes cannot be varied one method at a time", strings.Join(v.Ident, "."))})
			}
		}
	}
	var visitArg func(n parse.Node, sole bool)
	visitArg = func(n parse.Node, sole bool) {
		switch n := n.(type) {
		case *parse.VariableNode:
			checkVar(n, sole)
		case *parse.PipeNode:
			visitPipe(n, false)
		case *parse.ChainNode:
			visitArg(n.Node, false)
		case *parse.NumberNode:
			if n.IsInt {
				lens = append(lens, int(n.Int64))
			}
		}
	}
	visitPipe = func(p *parse.PipeNode, soleIfOperand bool) {
		if p == nil {
			return
		}
		for _, cmd := range p.Cmds {
			sole := soleIfOperand && len(p.Cmds) == 1 && len(cmd.Args) == 1
			// a comparison of a variable with an integer constant k (and "not v") splits the
			// iterations into at most k+2 kinds; k is added to the explored lengths
			if id, ok := cmd.Args[0].(*parse.IdentifierNode); ok {
				cmpConst := false
				switch id.Ident {
				case "eq", "ne", "lt", "le", "gt", "ge":
					if len(cmd.Args) == 3 {
						_, v1 := cmd.Args[1].(*parse.VariableNode)
						_, v2 := cmd.Args[2].(*parse.VariableNode)
						n1, c1 := cmd.Args[1].(*parse.NumberNode)
						n2, c2 := cmd.Args[2].(*parse.NumberNode)
						cmpConst = (v1 && c2 && n2.IsInt) || (v2 && c1 && n1.IsInt)
					}
				case "not":
					cmpConst = len(cmd.Args) == 2
				}
				if cmpConst {
					for _, a := range cmd.Args[1:] {
						if v, ok := a.(*parse.VariableNode); ok && len(v.Ident) == 1 {
							checkVar(v, true)
						} else {
							visitArg(a, false)
						}
					}
					continue
				}
			}
			for _, a := range cmd.Args {
				visitArg(a, sole)
			}
		}
	}
	visitNode = func(n parse.Node) {
		switch n := n.(type) {
		case *parse.ListNode:
			if n == nil {
				return
			}
			for _, x := range n.Nodes {
				visitNode(x)
			}
		case *parse.ActionNode:
			visitPipe(n.Pipe, false)
		case *parse.IfNode:
			visitPipe(n.Pipe, true)
			visitNode(n.List)
			visitNode(n.ElseList)
		case *parse.WithNode:
			visitPipe(n.Pipe, false)
			visitNode(n.List)
			visitNode(n.ElseList)
		case *parse.TemplateNode:
			visitPipe(n.Pipe, false)
			inMethods := false
			for _, rc := range stack {
				if rc.over == "Methods" {
					inMethods = true
				}
			}
			if inMethods && subTemplateMentions(src, n.Name, map[string]bool{}) {
				errs = append(errs, uniErr{"cross-method:template " + n.Name, int(n.Position()), fmt.Sprintf("the body of a range over methods invokes template %q, which refers to .Methods or .Mocks: method bodies are then not independent of the other methods", n.Name)})
			}
		case *parse.RangeNode:
			// the ranged pipeline itself
			rc := rangeCtx{}
			switch len(n.Pipe.Decl) {
			case 1:
				rc.elemVar = n.Pipe.Decl[0].Ident[0]
			case 2:
				rc.indexVar, rc.elemVar = n.Pipe.Decl[0].Ident[0], n.Pipe.Decl[1].Ident[0]
			}
			if len(n.Pipe.Cmds) == 1 && len(n.Pipe.Cmds[0].Args) == 1 {
				switch a := n.Pipe.Cmds[0].Args[0].(type) {
				case *parse.FieldNode:
					rc.over = a.Ident[len(a.Ident)-1]
				case *parse.VariableNode:
					rc.over = a.Ident[len(a.Ident)-1]
				}
			}
			for _, cmd := range n.Pipe.Cmds {
				for _, a := range cmd.Args {
					visitArg(a, false)
				}
			}
			stack = append(stack, rc)
			visitNode(n.List)
			stack = stack[:len(stack)-1]
			visitNode(n.ElseList)
		}
	}
	visitNode(src.Tree.Root)
	// sub-templates ({{define}}) start with an empty variable scope
	var names []string
	for name, t := range src.Trees {
		if t != nil && t != src.Tree && t.Root != nil {
			names = append(names, name)
		}
	}
	sort.Strings(names)
	for _, name := range names {
		stack = nil
		visitNode(src.Trees[name].Root)
	}
	sort.Ints(lens)
	return lens, errs
}

// subTemplateMentions reports whether the named sub-template (or one it invokes)
// mentions the method or mock lists.
func subTemplateMentions(src *tmpl.Source, name string, seen map[string]bool) bool {
	if seen[name] {
		return false
	}
	seen[name] = true
	t := src.Trees[name]
	if t == nil || t.Root == nil {
		return false
	}
	found := false
	var visit func(n parse.Node)
	visit = func(n parse.Node) {
		if found || n == nil {
			return
		}
		switch n := n.(type) {
		case *parse.ListNode:
			if n != nil {
				for _, x := range n.Nodes {
					visit(x)
				}
			}
		case *parse.ActionNode:
			visit(n.Pipe)
		case *parse.IfNode:
			visit(n.Pipe)
			visit(n.List)
			visit(n.ElseList)
		case *parse.WithNode:
			visit(n.Pipe)
			visit(n.List)
			visit(n.ElseList)
		case *parse.RangeNode:
			visit(n.Pipe)
			visit(n.List)
			visit(n.ElseList)
		case *parse.TemplateNode:
			visit(n.Pipe)
			if subTemplateMentions(src, n.Name, seen) {
				found = true
			}
		case *parse.PipeNode:
			if n != nil {
				for _, c := range n.Cmds {
					for _, a := range c.Args {
						visit(a)
					}
				}
			}
		case *parse.FieldNode:
			for _, id := range n.Ident {
				if id == "Methods" || id == "Mocks" {
					found = true
				}
			}
		case *parse.VariableNode:
			for _, id := range n.Ident[1:] {
				if id == "Methods" || id == "Mocks" {
					found = true
				}
			}
		case *parse.ChainNode:
			visit(n.Node)
			for _, id := range n.Field {
				if id == "Methods" || id == "Mocks" {
					found = true
				}
			}
		}
	}
	visit(t.Root)
	return found
}

// FreeNames computes K-FREE over all flag combinations on a representative shape.
func (c *Ctx) FreeNames() (map[string]string, error) {
	src, err := c.Source()
	if err != nil {
		return nil, err
	}
	out := map[string]string{}
	for bits := 0; bits < 16; bits++ {
		e := tmpl.Env{Stub: bits&1 != 0, SkipEnsure: bits&2 != 0, WithResets: bits&4 != 0, External: bits&8 != 0,
			Mocks: []tmpl.MockShape{{Methods: []tmpl.MethodShape{{NParams: 2, Variadic: true, NResults: 2}, {}}}}}
		model := tmpl.BuildModel(e)
		dvs, err := tmpl.Derive(c.Prog, model, "")
		if err != nil {
			return nil, err
		}
		var data *interp.Struct
		for _, dv := range dvs {
			if !dv.Failed && dv.Data != nil {
				data = dv.Data
				break
			}
		}
		if data == nil {
			return nil, fmt.Errorf("no template data derivable for %s", e)
		}
		model = tmpl.ModelFromData(model, data)
		sks, err := tmpl.ExpandData(src, func() *interp.Machine { m := interp.New(c.Prog); tmpl.InstallTypesModels(m, c.Prog); return m }, model, data, nil)
		if err != nil {
			return nil, err
		}
		for _, sk := range sks {
			u := skel.Build(c.Prog, sk)
			if u.ParseErr != nil || len(u.TypeErrs) > 0 {
				return nil, fmt.Errorf("skeleton for %s does not type-check", e)
			}
			for k, v := range u.FreeNames() {
				out[k] = v
			}
		}
	}
	return out, nil
}
