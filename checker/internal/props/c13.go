package props

import (
	"fmt"
	"go/ast"
	"go/parser"
	"go/token"
	"go/types"
	"os"
	"path/filepath"
	"sort"
	"strconv"
	"strings"

	"verif/checker/internal/gen"
	"verif/checker/internal/interp"
	"verif/checker/internal/load"
	"verif/checker/internal/tmpl"
)

// golintInitialisms is golint's commonInitialisms (golang.org/x/lint, lint.go),
// used when the module cache copy cannot be read.
var golintFallback = []string{"ACL", "API", "ASCII", "CPU", "CSS", "DNS", "EOF", "GUID", "HTML", "HTTP", "HTTPS", "ID", "IP", "JSON", "LHS", "QPS", "RAM", "RHS", "RPC", "SLA", "SMTP", "SQL", "SSH", "TCP", "TLS", "TTL", "UDP", "UI", "UID", "UUID", "URI", "URL", "UTF8", "VM", "XML", "XMPP", "XSRF", "XSS"}

func golintTable() ([]string, string) {
	roots := []string{os.Getenv("GOMODCACHE"), filepath.Join(os.Getenv("HOME"), "go/pkg/mod"), "/root/go/pkg/mod"}
	for _, r := range roots {
		if r == "" {
			continue
		}
		ms, _ := filepath.Glob(filepath.Join(r, "golang.org/x/lint@*/lint.go"))
		sort.Strings(ms)
		for _, f := range ms {
			fset := token.NewFileSet()
			af, err := parser.ParseFile(fset, f, nil, 0)
			if err != nil {
				continue
			}
			var out []string
			ast.Inspect(af, func(n ast.Node) bool {
				vs, ok := n.(*ast.ValueSpec)
				if !ok || len(vs.Names) != 1 || vs.Names[0].Name != "commonInitialisms" || len(vs.Values) != 1 {
					return true
				}
				if cl, ok := vs.Values[0].(*ast.CompositeLit); ok {
					for _, el := range cl.Elts {
						if kv, ok := el.(*ast.KeyValueExpr); ok {
							if bl, ok := kv.Key.(*ast.BasicLit); ok {
								if s, err := strconv.Unquote(bl.Value); err == nil {
									out = append(out, s)
								}
							}
						}
					}
				}
				return false
			})
			if len(out) > 0 {
				sort.Strings(out)
				return out, f
			}
		}
	}
	out := append([]string{}, golintFallback...)
	sort.Strings(out)
	return out, "embedded copy (golang.org/x/lint not found in the module cache)"
}

// exportedTable enumerates the paths of the Exported template function on a
// symbolic, non-empty argument and on the empty string.
func exportedTable(c *Ctx) {
	run := c.Run
	src, err := c.Source()
	if err != nil {
		run.Undecided("G-EXPORTED", "template", "internal/template/template.go", err.Error())
		return
	}
	fl, flPos, _ := src.FuncValue("Exported")
	if fl == nil {
		run.Undecided("G-EXPORTED", "role", "internal/template/template.go", "the template function map has no entry \"Exported\" (the function that turns parameter names into record field names)")
		return
	}
	pos := c.Prog.Pos(flPos)
	// the template must use it for every record field spelling: checked by K-RECORD/literal on the skeletons
	// ---- empty string
	{
		m := interp.New(c.Prog)
		v, err := m.Call(flPos, fl, []interp.Value{interp.Lit("")})
		s, _ := v.(*interp.Sym)
		cs, conc := "", false
		if s != nil {
			cs, conc = s.Concrete()
		}
		run.Check("G-EXPORTED/table", "empty", pos, err == nil && conc && cs == "", fmt.Sprintf("Exported(\"\") = %s (%v), want \"\"", interp.Show(v), err))
	}
	// ---- two legal, distinct parameter names that differ in the case of the first letter
	if c.collisionRows {
		call := func(name string) (string, bool) {
			m := interp.New(c.Prog)
			v, err := m.Call(flPos, fl, []interp.Value{interp.Lit(name)})
			if s, ok := v.(*interp.Sym); ok && err == nil {
				return s.Concrete()
			}
			return "", false
		}
		a, okA := call("kv")
		b, okB := call("Kv")
		if !okA || !okB {
			run.Undecided("G-EXPORTED/distinct-fields", "kv,Kv", pos, "Exported cannot be evaluated on the names kv and Kv")
		} else {
			run.Check("G-EXPORTED/distinct-fields", "kv,Kv", pos, a != b, fmt.Sprintf("the parameters kv and Kv of one method are distinct identifiers, their call-record fields are Exported(\"kv\") = %q and Exported(\"Kv\") = %q: the record struct declares one field twice unless the generator tells such names apart before it spells the fields", a, b))
		}
	}
	// ---- the table itself
	var table []string
	{
		m := interp.New(c.Prog)
		gv, ok := src.Prog.Moq[load.PkgTemplate].Types.Scope().Lookup("golintInitialisms").(*types.Var)
		_ = gv
		_ = ok
		_ = m
	}
	want, from := golintTable()
	// ---- symbolic argument: enumerate paths
	arg := interp.Tok("ƥ")
	choices := interp.NewChoices(512)
	type path struct {
		ret   interp.Value
		conds map[string]bool
	}
	var paths []path
	for {
		m := interp.New(c.Prog)
		m.Choices = choices
		v, err := m.Call(flPos, fl, []interp.Value{arg})
		if err != nil {
			p := pos
			if u, ok := err.(*interp.ErrUndecided); ok && u.Pos.IsValid() {
				p = c.Prog.Pos(u.Pos)
			}
			run.Undecided("G-EXPORTED", "vocabulary", p, "Exported cannot be summarised: "+err.Error())
			return
		}
		conds := map[string]bool{}
		for k, b := range choices.Memo() {
			conds[k[strings.IndexByte(k, ':')+1:]] = b
		}
		paths = append(paths, path{v, conds})
		more, overflow := choices.Advance()
		if overflow {
			run.Undecided("G-EXPORTED", "paths", pos, "more than 512 paths through Exported")
			return
		}
		if !more {
			break
		}
	}
	run.Count("exported_paths", len(paths))
	upper := `strings.ToUpper("ƥ")`
	nFall := 0
	for _, p := range paths {
		// the conditions met must all be of the form (ToUpper(s) == "X")
		var trueConst []string
		okConds := true
		for k, b := range p.conds {
			if !strings.HasPrefix(k, "("+upper+" == \"") {
				okConds = false
				continue
			}
			cst := strings.TrimSuffix(strings.TrimPrefix(k, "("+upper+" == \""), "\")")
			table = append(table, cst)
			if b {
				trueConst = append(trueConst, cst)
			}
		}
		if !okConds {
			run.Check("G-EXPORTED/table", "conditions", pos, false, fmt.Sprintf("Exported decides on something other than `strings.ToUpper(s) == <initialism>`: %v — field names would depend on more than the case-folded name", keys(p.conds)))
			continue
		}
		switch len(trueConst) {
		case 0:
			nFall++
			wantTerm := `(strings.ToUpper(slice("ƥ",0,1)) + slice("ƥ",1,))`
			run.Check("G-EXPORTED/table", "default:upper-case-first-letter", pos, interp.TermOf(p.ret) == wantTerm, fmt.Sprintf("for a name that is no initialism Exported returns %s, want %s (first letter upper-cased, rest unchanged)", interp.TermOf(p.ret), wantTerm))
		case 1:
			s, _ := p.ret.(*interp.Sym)
			cs := ""
			if s != nil {
				cs, _ = s.Concrete()
			}
			// returning the case-folded name on the path where it equals the initialism returns the initialism
			if u, ok := p.ret.(*interp.Unknown); ok && u.Why == upper {
				cs = trueConst[0]
			}
			run.Check("G-EXPORTED/table", "initialism:"+trueConst[0], pos, cs == trueConst[0], fmt.Sprintf("for a name equal to %q ignoring case Exported returns %s, want %q", trueConst[0], interp.Show(p.ret), trueConst[0]))
		default:
			run.Check("G-EXPORTED/table", "conditions", pos, false, "inconsistent path")
		}
	}
	run.Check("G-EXPORTED/table", "default:reachable", pos, nFall == 1, fmt.Sprintf("%d fall-through paths, want 1", nFall))
	// ---- the initialism table equals golint's and is upper case throughout
	seen := map[string]bool{}
	var got []string
	for _, t := range table {
		if !seen[t] {
			seen[t] = true
			got = append(got, t)
		}
	}
	sort.Strings(got)
	for _, t := range got {
		run.Check("G-EXPORTED/initialisms", "upper-case:"+t, pos, t == strings.ToUpper(t), fmt.Sprintf("initialism %q is not upper case: it can never equal strings.ToUpper(name), the entry is dead", t))
	}
	missing, extra := diff(want, got)
	run.Check("G-EXPORTED/initialisms", "equals-golint", pos, len(missing) == 0 && len(extra) == 0, fmt.Sprintf("the initialism table differs from golint's commonInitialisms (%s): missing %v, extra %v — record field names of parameters named like these change", from, missing, extra))
	run.Count("initialisms", len(got))
	run.Sample(map[string]any{"initialisms_compared_with": from, "count": len(got)})
	run.Floor("G-EXPORTED/table", 30)
}

func keys(m map[string]bool) []string {
	var out []string
	for k := range m {
		out = append(out, k)
	}
	sort.Strings(out)
	return out
}

func diff(want, got []string) (missing, extra []string) {
	w, g := map[string]bool{}, map[string]bool{}
	for _, x := range want {
		w[x] = true
	}
	for _, x := range got {
		g[x] = true
	}
	for _, x := range want {
		if !g[x] {
			missing = append(missing, x)
		}
	}
	for _, x := range got {
		if !w[x] {
			extra = append(extra, x)
		}
	}
	return
}

// ---------------------------------------------------------------------
// type-derived names

type absType struct {
	desc string
	v    *interp.Opaque
	want string
}

func tmeth(v interp.Value) func(*interp.Machine, token.Pos, []interp.Value) (interp.Value, error) {
	return func(*interp.Machine, token.Pos, []interp.Value) (interp.Value, error) { return v, nil }
}

type mmap = map[string]func(*interp.Machine, token.Pos, []interp.Value) (interp.Value, error)

func basicT(name string, info types.BasicInfo) *interp.Opaque {
	return &interp.Opaque{Kind: "types.Type", ID: name, GoType: "*go/types.Basic", Methods: mmap{
		"Info": tmeth(int64(info)), "String": tmeth(interp.Lit(name)), "Name": tmeth(interp.Lit(name)),
	}}
}

func namedT(name string) *interp.Opaque {
	obj := &interp.Opaque{Kind: "types.TypeName", ID: name + ".obj", GoType: "*go/types.TypeName", Methods: mmap{"Name": tmeth(interp.Lit(name))}}
	return &interp.Opaque{Kind: "types.Type", ID: name, GoType: "*go/types.Named", Methods: mmap{"Obj": tmeth(obj), "String": tmeth(interp.Lit("pkg." + name))}}
}

func elemT(goType string, elem *interp.Opaque) *interp.Opaque {
	return &interp.Opaque{Kind: "types.Type", ID: goType + "(" + elem.ID + ")", GoType: goType, Methods: mmap{"Elem": tmeth(elem)}}
}

func mapT(k, e *interp.Opaque) *interp.Opaque {
	return &interp.Opaque{Kind: "types.Type", ID: "map[" + k.ID + "]" + e.ID, GoType: "*go/types.Map", Methods: mmap{"Key": tmeth(k), "Elem": tmeth(e)}}
}

func leafT(goType string) *interp.Opaque {
	return &interp.Opaque{Kind: "types.Type", ID: goType, GoType: goType, Methods: mmap{}}
}

// namingTable checks the type-derived default names against the reference
// table (the contract the property statement describes), by evaluating the
// naming function on one abstract go/types value per type constructor.
func namingTable(c *Ctx, na *gen.NameAlloc) {
	run := c.Run
	// the type-derived namer: the moq function the proposer calls with the variable's type
	decl := c.Prog.Decl(na.VarNameFn)
	info := c.Prog.Info(na.VarNameFn.Pkg())
	var namer *types.Func
	ast.Inspect(decl.Body, func(n ast.Node) bool {
		if call, ok := n.(*ast.CallExpr); ok {
			if id, ok := ast.Unparen(call.Fun).(*ast.Ident); ok {
				if fn, ok := info.Uses[id].(*types.Func); ok && c.Prog.IsMoqPkg(fn.Pkg()) && fn != na.VarNameFn && namer == nil {
					namer = fn
				}
			}
		}
		return true
	})
	if namer == nil {
		run.Undecided("G-NAMING", "role", c.Prog.Pos(decl.Pos()), "the name proposer does not call a type-derived namer")
		return
	}
	pos := c.Prog.Pos(namer.Pos())
	str := basicT("string", types.IsString)
	i := basicT("int", types.IsInteger)
	myT := namedT("MyType")
	cases := []absType{
		{"bool", basicT("bool", types.IsBoolean), "b"},
		{"int", i, "n"},
		{"int64", basicT("int64", types.IsInteger), "n"},
		{"rune", basicT("rune", types.IsInteger), "n"},
		{"uint (unsigned)", basicT("uint", types.IsInteger|types.IsUnsigned), "v"},
		{"byte (unsigned)", basicT("byte", types.IsInteger|types.IsUnsigned), "v"},
		{"float64", basicT("float64", types.IsFloat), "f"},
		{"complex128", basicT("complex128", types.IsComplex), "v"},
		{"string", str, "s"},
		{"unsafe.Pointer", basicT("Pointer", 0), "v"},
		{"error", namedT("error"), "err"},
		{"named MyType", myT, "myType"},
		{"named myType (already lower case)", namedT("myType"), "myTypeMoqParam"},
		{"[]MyType", elemT("*go/types.Slice", myT), "myTypes"},
		{"[3]int", elemT("*go/types.Array", i), "ints"},
		{"[]string", elemT("*go/types.Slice", str), "strings"},
		{"[]*MyType", elemT("*go/types.Slice", elemT("*go/types.Pointer", myT)), "myTypes"},
		{"map[string]int", mapT(str, i), "stringToInt"},
		{"map[MyType][]string", mapT(myT, elemT("*go/types.Slice", str)), "myTypeToStrings"},
		{"chan int", elemT("*go/types.Chan", i), "intCh"},
		{"chan *MyType", elemT("*go/types.Chan", elemT("*go/types.Pointer", myT)), "myTypeCh"},
		{"*MyType", elemT("*go/types.Pointer", myT), "myType"},
		{"**int", elemT("*go/types.Pointer", elemT("*go/types.Pointer", i)), "n"},
		{"struct{...}", leafT("*go/types.Struct"), "val"},
		{"func(...)", leafT("*go/types.Signature"), "fn"},
		{"interface{...}", leafT("*go/types.Interface"), "ifaceVal"},
		{"type parameter", leafT("*go/types.TypeParam"), "v"},
	}
	for _, tc := range cases {
		vals, errs := allPaths(c.Prog, func(m *interp.Machine) (interp.Value, error) {
			return m.CallFunc(token.NoPos, namer, nil, []interp.Value{tc.v})
		})
		var err error
		got := ""
		for pi, v := range vals {
			if errs[pi] != nil {
				err = errs[pi]
				break
			}
			g := interp.Show(v)
			if s, ok := v.(*interp.Sym); ok {
				g = s.Flat()
			}
			if pi == 0 || g != tc.want {
				got = g
			}
		}
		if err != nil {
			p := pos
			if u, ok := err.(*interp.ErrUndecided); ok && u.Pos.IsValid() {
				p = c.Prog.Pos(u.Pos)
			}
			run.Undecided("G-NAMING/table", tc.desc, p, "the type-derived name for "+tc.desc+" cannot be evaluated: "+err.Error())
			continue
		}
		run.Check("G-NAMING/table", tc.desc, pos, got == tc.want, fmt.Sprintf("an unnamed parameter of type %s is named %q, the documented rule gives %q", tc.desc, got, tc.want))
	}
	run.Floor("G-NAMING/table", 20)
	_ = tmpl.TokEnd
}

func init() {
	register("C13", "other", func(c *Ctx) {
		c.Run.Explainf("C13 (call-record field names follow parameter names predictably): (a) user-written names are kept — on the path where the go/types name is neither \"\" nor \"_\" the name proposer never consults the type-derived namer and only appends to the name (go/cfg with the branch assumption), and the reserved-name table renames nothing beyond {identifiers the generated body uses, keywords, predeclared type names}; (b) the record field is Exported(parameter name) at every spelling (K-RECORD/literal on all skeletons: key, struct field and element type agree); (c) Exported's decision table is extracted by enumerating its paths on a symbolic non-empty name (abstract interpretation of its current source): it decides only on strings.ToUpper(s) == <initialism>, returns that initialism, and otherwise ToUpper(s[0:1])+s[1:]; \"\" maps to \"\"; (d) the initialism table is upper case throughout and equals golint's commonInitialisms, read from golang.org/x/lint in the module cache; (e) the type-derived default names equal the reference table (one abstract go/types value per type constructor is pushed through the namer's source). NOT decided: the concrete string for every name (that is evaluating the function) and behaviour under collisions.")
		exportedTable(c)
		namesTables(c, freeNameList(c, "G-RESERVED"), true, true)
		c.RunSkeletons(SkelOpts{Rules: []string{"K-RECORD/literal", "G-SCOPE/fresh", "G-MOCK/infrastructure-imports-last", "G-DATA/name-final"}, Env: smallEnv})
	})
}
