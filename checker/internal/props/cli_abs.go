package props

import (
	"fmt"
	"go/token"
	"go/types"
	"path/filepath"
	"sort"
	"strings"

	"verif/checker/internal/interp"
	"verif/checker/internal/load"
)

// Engine C: the command-line front end is decided by abstract interpretation
// of package main, starting at func main, whatever helpers it is split into.
// The flag package, os.Exit, the printing functions, moq.New / Mock and the
// three file-system mutators are replaced by models that record events; every
// fallible model returns an abstract error (nil or not) and both outcomes are
// explored. Environments: -out set or not, -rm set or not, -version set or
// not, 0..3 positional arguments. The other flags keep opaque values whose
// way into moq.Config is observed.

type cliEnv struct {
	Out, Rm, Version bool
	NArgs            int
}

func (e cliEnv) String() string {
	var ss []string
	if e.Out {
		ss = append(ss, "-out F")
	}
	if e.Rm {
		ss = append(ss, "-rm")
	}
	if e.Version {
		ss = append(ss, "-version")
	}
	ss = append(ss, fmt.Sprintf("%d arguments", e.NArgs))
	return strings.Join(ss, " ")
}

type cliEvent struct {
	Kind string // print, new, mock, remove, mkdirall, writefile, usage
	A, B interp.Value
	Err  int // number of the abstract error the event returned (0: none)
	Pos  token.Pos
}

type cliPath struct {
	Env      cliEnv
	Events   []cliEvent
	Exit     int64
	NonNil   map[int]bool // abstract errors decided non-nil on this path
	NotExist map[int]bool // ... of which errors.Is(err, os.ErrNotExist) was decided true
	Choices  string
	Bound    map[string]bool
	Indexed  map[token.Pos]bool // index and slice expressions evaluated in range on this path
	// FlagDecided: boolean flags whose opaque value a model had to decide on this path (flag.Visit)
	FlagDecided map[string]bool
}

const (
	tokOut = "«out»"
)

func (p *cliPath) kinds() string {
	var ss []string
	for _, e := range p.Events {
		ss = append(ss, e.Kind)
	}
	return strings.Join(ss, " ")
}

func (p *cliPath) failedBefore(i int) bool {
	for _, e := range p.Events[:i] {
		if e.Err != 0 && p.NonNil[e.Err] && !(e.Kind == "remove" && p.NotExist[e.Err]) {
			return true
		}
	}
	return false
}

// anyFailure: some fallible event failed on this path (a missing output file at -rm is no failure).
func (p *cliPath) anyFailure() bool { return p.failedBefore(len(p.Events)) }

// cliMaxArgs is the largest number of positional arguments explored (thorough: 5).
var cliMaxArgs = 3

func cliExplore(prog *load.Program) ([]*cliPath, error) {
	mainFn := prog.LookupFunc(load.PkgMain, "main")
	if mainFn == nil {
		return nil, fmt.Errorf("func main not found in %s", load.PkgMain)
	}
	var out []*cliPath
	for _, env := range cliEnvs() {
		choices := interp.NewChoices(256)
		for {
			p, err := cliRun(prog, env, choices)
			if err != nil {
				return nil, err
			}
			out = append(out, p)
			more, overflow := choices.Advance()
			if overflow {
				return nil, fmt.Errorf("more than 256 paths through main for %s", env)
			}
			if !more {
				break
			}
		}
	}
	return out, nil
}

func cliEnvs() []cliEnv {
	var out []cliEnv
	for _, o := range []bool{false, true} {
		for _, rm := range []bool{false, true} {
			for n := 0; n <= cliMaxArgs; n++ {
				out = append(out, cliEnv{Out: o, Rm: rm, NArgs: n})
			}
		}
	}
	out = append(out, cliEnv{Version: true, NArgs: 0}, cliEnv{Version: true, Out: true, Rm: true, NArgs: 2})
	return out
}

func cliRun(prog *load.Program, env cliEnv, choices *interp.Choices) (*cliPath, error) {
	m := interp.New(prog)
	m.Choices = choices
	m.Indexed = map[token.Pos]bool{}
	// path arithmetic, string helpers and the predicates of a file mode have no effects: without a model
	// their results are unknown (what package main decides on them is explored both ways)
	m.PureUnknown = func(fn *types.Func) bool {
		if fn.Pkg() == nil {
			return false
		}
		switch fn.Pkg().Path() {
		case "path/filepath":
			switch fn.Name() {
			case "Split", "Dir", "Base", "Ext", "Clean", "Join", "IsAbs", "Rel", "ToSlash", "FromSlash", "VolumeName", "IsLocal", "Match":
				return true
			}
		case "path", "strings", "strconv", "unicode", "unicode/utf8", "bytes":
			return true
		case "io/fs":
			sig, _ := fn.Type().(*types.Signature)
			if sig != nil && sig.Recv() != nil {
				if n, ok := types.Unalias(sig.Recv().Type()).(*types.Named); ok && n.Obj().Name() == "FileMode" {
					return true
				}
			}
		}
		return false
	}
	p := &cliPath{Env: env, NonNil: map[int]bool{}, NotExist: map[int]bool{}, Bound: map[string]bool{}, FlagDecided: map[string]bool{}}
	type flagRec struct {
		get    func() interp.Value
		isBool bool
	}
	declared := map[string]*flagRec{}
	nerr := 0
	errVal := func(what string) (interp.Value, int) {
		nerr++
		return &interp.Unknown{Why: fmt.Sprintf("error#%d of %s", nerr, what)}, nerr
	}
	ev := func(kind string, pos token.Pos, a, b interp.Value, errNo int) {
		p.Events = append(p.Events, cliEvent{Kind: kind, A: a, B: b, Err: errNo, Pos: pos})
	}
	bind := func(name string, isBool bool) interp.Value {
		p.Bound[name] = true
		switch name {
		case "out":
			if env.Out {
				return interp.Tok(tokOut)
			}
			return interp.Lit("")
		case "rm":
			return env.Rm
		case "version":
			return env.Version
		}
		if isBool {
			return &interp.Unknown{Why: "flag:" + name}
		}
		return interp.Tok("«" + name + "»")
	}
	flagName := func(v interp.Value) (string, bool) {
		s, ok := v.(*interp.Sym)
		if !ok {
			return "", false
		}
		return s.Concrete()
	}
	args := &interp.List{}
	for i := 0; i < env.NArgs; i++ {
		args.Elems = append(args.Elems, interp.Tok(fmt.Sprintf("«arg%d»", i)))
	}
	for _, prefix := range []string{"flag.", "(*flag.FlagSet)."} {
		prefix := prefix
		for _, kind := range []string{"String", "Bool"} {
			kind := kind
			m.Ext[prefix+kind+"Var"] = func(mm *interp.Machine, pos token.Pos, recv interp.Value, a []interp.Value) (interp.Value, error) {
				if len(a) < 2 {
					return nil, &interp.ErrUndecided{Pos: pos, Msg: "flag binding arity"}
				}
				ref, ok := a[0].(*interp.Ref)
				name, ok2 := flagName(a[1])
				if !ok || !ok2 {
					return nil, &interp.ErrUndecided{Pos: pos, Msg: "a flag is bound to something that is not the address of a variable or field, or under a name that is not constant"}
				}
				ref.Set(bind(name, kind == "Bool"))
				declared[name] = &flagRec{get: ref.Get, isBool: kind == "Bool"}
				return interp.NilV{}, nil
			}
			m.Ext[prefix+kind] = func(mm *interp.Machine, pos token.Pos, recv interp.Value, a []interp.Value) (interp.Value, error) {
				if len(a) < 1 {
					return nil, &interp.ErrUndecided{Pos: pos, Msg: "flag binding arity"}
				}
				name, ok := flagName(a[0])
				if !ok {
					return nil, &interp.ErrUndecided{Pos: pos, Msg: "a flag is declared under a name that is not constant"}
				}
				cell := bind(name, kind == "Bool")
				declared[name] = &flagRec{get: func() interp.Value { return cell }, isBool: kind == "Bool"}
				return &interp.Ref{ID: "flag " + name, Get: func() interp.Value { return cell }, Set: func(v interp.Value) { cell = v }}, nil
			}
		}
		// Visit calls fn for the flags that were set, in lexical order; VisitAll for all. A boolean flag with
		// an opaque value is decided on the spot (the decision is kept for the path); a false one is visited
		// as set explicitly (-stub=false).
		for _, all := range []bool{false, true} {
			all := all
			name := "Visit"
			if all {
				name = "VisitAll"
			}
			m.Ext[prefix+name] = func(mm *interp.Machine, pos token.Pos, recv interp.Value, a []interp.Value) (interp.Value, error) {
				if len(a) != 1 {
					return nil, &interp.ErrUndecided{Pos: pos, Msg: "flag." + name + " arity"}
				}
				var names []string
				for n := range declared {
					names = append(names, n)
				}
				sort.Strings(names)
				for _, n := range names {
					rec := declared[n]
					v := rec.get()
					set := true
					var text interp.Value
					switch x := v.(type) {
					case bool:
						set = x
						text = interp.Lit(fmt.Sprint(x))
					case *interp.Unknown:
						if !rec.isBool {
							return nil, &interp.ErrUndecided{Pos: pos, Msg: "flag." + name + ": the value of -" + n + " is not determined"}
						}
						b, err := mm.TruthOf(x, "0:"+x.Why)
						if err != nil {
							return nil, err
						}
						p.FlagDecided[n] = b
						text = interp.Lit(fmt.Sprint(b))
						// a false flag may still have been set explicitly (-stub=false): that is the case
						// taken — for code that looks at the value it is the same as not being visited
					case *interp.Sym:
						text = x
						if c, ok := x.Concrete(); ok && c == "" {
							set = false
						}
					default:
						return nil, &interp.ErrUndecided{Pos: pos, Msg: "flag." + name + ": the value of -" + n + " is outside the vocabulary"}
					}
					if !set && !all {
						continue
					}
					txt := text
					val := &interp.Opaque{Kind: "flag.Value", ID: "value of -" + n, GoType: "flag.Value", Methods: map[string]func(*interp.Machine, token.Pos, []interp.Value) (interp.Value, error){
						"String": func(*interp.Machine, token.Pos, []interp.Value) (interp.Value, error) { return txt, nil },
					}}
					fl := &interp.Opaque{Kind: "flag.Flag", ID: "flag -" + n, GoType: "*flag.Flag", Attrs: map[string]interp.Value{"Name": interp.Lit(n), "Value": val, "Usage": interp.Lit(""), "DefValue": interp.Lit("")}}
					if _, err := mm.Call(pos, a[0], []interp.Value{fl}); err != nil {
						return nil, err
					}
				}
				return interp.NilV{}, nil
			}
		}
		m.Ext[prefix+"Parse"] = func(mm *interp.Machine, pos token.Pos, recv interp.Value, a []interp.Value) (interp.Value, error) {
			return interp.NilV{}, nil
		}
		m.Ext[prefix+"Args"] = func(mm *interp.Machine, pos token.Pos, recv interp.Value, a []interp.Value) (interp.Value, error) {
			return &interp.List{Elems: append([]interp.Value{}, args.Elems...)}, nil
		}
		m.Ext[prefix+"NArg"] = func(mm *interp.Machine, pos token.Pos, recv interp.Value, a []interp.Value) (interp.Value, error) {
			return int64(len(args.Elems)), nil
		}
		m.Ext[prefix+"Arg"] = func(mm *interp.Machine, pos token.Pos, recv interp.Value, a []interp.Value) (interp.Value, error) {
			if i, ok := a[0].(int64); ok && i >= 0 && int(i) < len(args.Elems) {
				return args.Elems[i], nil
			}
			return interp.Lit(""), nil
		}
		for _, n := range []string{"PrintDefaults", "SetOutput", "Init"} {
			m.Ext[prefix+n] = func(mm *interp.Machine, pos token.Pos, recv interp.Value, a []interp.Value) (interp.Value, error) {
				return interp.NilV{}, nil
			}
		}
	}
	// the default flag set, for code that hands it around (setup funcs taking a *flag.FlagSet)
	m.ExtVars["flag.CommandLine"] = &interp.Opaque{Kind: "*flag.FlagSet", ID: "flag.CommandLine", GoType: "*flag.FlagSet", Attrs: map[string]interp.Value{}}
	m.Ext["flag.NewFlagSet"] = func(mm *interp.Machine, pos token.Pos, recv interp.Value, a []interp.Value) (interp.Value, error) {
		return &interp.Opaque{Kind: "*flag.FlagSet", ID: "flagset", GoType: "*flag.FlagSet", Attrs: map[string]interp.Value{}}, nil
	}
	m.Ext["os.Exit"] = func(mm *interp.Machine, pos token.Pos, recv interp.Value, a []interp.Value) (interp.Value, error) {
		code, ok := a[0].(int64)
		if !ok {
			return nil, &interp.ErrUndecided{Pos: pos, Msg: "os.Exit with a status that is not a constant on this path"}
		}
		return nil, &interp.ErrExit{Code: code}
	}
	stdout := &interp.Opaque{Kind: "os.File", ID: "stdout", GoType: "*os.File"}
	stderr := &interp.Opaque{Kind: "os.File", ID: "stderr", GoType: "*os.File"}
	notExist := &interp.Opaque{Kind: "error", ID: "os.ErrNotExist"}
	m.ExtVars["os.Stdout"], m.ExtVars["os.Stderr"], m.ExtVars["os.ErrNotExist"] = stdout, stderr, notExist
	m.ExtVars["io/fs.ErrNotExist"] = notExist
	m.ExtVars["os.Args"] = &interp.List{Elems: append([]interp.Value{interp.Tok("«argv0»")}, args.Elems...)}
	for _, n := range []string{"fmt.Println", "fmt.Printf", "fmt.Print"} {
		m.Ext[n] = func(mm *interp.Machine, pos token.Pos, recv interp.Value, a []interp.Value) (interp.Value, error) {
			var first interp.Value
			if len(a) > 0 {
				first = a[0]
			}
			ev("print", pos, stdout, first, 0)
			return interp.Tuple{int64(0), interp.NilV{}}, nil
		}
	}
	for _, n := range []string{"fmt.Fprintln", "fmt.Fprintf", "fmt.Fprint"} {
		m.Ext[n] = func(mm *interp.Machine, pos token.Pos, recv interp.Value, a []interp.Value) (interp.Value, error) {
			var first interp.Value
			if len(a) > 1 {
				first = a[1]
			}
			ev("print", pos, a[0], first, 0)
			return interp.Tuple{int64(0), interp.NilV{}}, nil
		}
	}
	for _, n := range []string{"errors.New", "fmt.Errorf"} {
		n := n
		m.Ext[n] = func(mm *interp.Machine, pos token.Pos, recv interp.Value, a []interp.Value) (interp.Value, error) {
			msg := ""
			if len(a) > 0 {
				msg = interp.TermOf(a[0])
			}
			return &interp.Opaque{Kind: "error", ID: n + ":" + msg}, nil
		}
	}
	isNotExist := func(mm *interp.Machine, pos token.Pos, recv interp.Value, a []interp.Value) (interp.Value, error) {
		if len(a) >= 1 {
			if u, ok := a[0].(*interp.Unknown); ok {
				if len(a) == 2 {
					if t, ok := a[1].(*interp.Opaque); !ok || t != notExist {
						return &interp.Unknown{Why: "errors.Is(" + u.Why + "," + interp.TermOf(a[1]) + ")"}, nil
					}
				}
				return &interp.Unknown{Why: "notexist(" + u.Why + ")"}, nil
			}
			if _, isNil := a[0].(interp.NilV); isNil {
				return false, nil
			}
		}
		return &interp.Unknown{Why: "errors.Is of " + interp.Show(a[0])}, nil
	}
	m.Ext["errors.Is"] = isNotExist
	m.Ext["os.IsNotExist"] = isNotExist
	// errors.As(err, &target): nil never matches; an abstract error may or may not be of the target's
	// type (explored both ways); on a match the target holds an unknown value of that type
	m.Ext["errors.As"] = func(mm *interp.Machine, pos token.Pos, recv interp.Value, a []interp.Value) (interp.Value, error) {
		if len(a) != 2 {
			return nil, &interp.ErrUndecided{Pos: pos, Msg: "errors.As arity"}
		}
		if _, isNil := a[0].(interp.NilV); isNil {
			return false, nil
		}
		why := fmt.Sprintf("errors.As(%s)@%s", interp.TermOf(a[0]), prog.Pos(pos))
		hit, err := mm.TruthOf(&interp.Unknown{Why: why}, "0:"+why)
		if err != nil {
			return nil, err
		}
		if hit {
			if ref, ok := a[1].(*interp.Ref); ok {
				ref.Set(&interp.Unknown{Why: "target of " + why})
			}
		}
		return hit, nil
	}
	// cleaning a path does not change which file it names
	m.Ext["path/filepath.Clean"] = func(mm *interp.Machine, pos token.Pos, recv interp.Value, a []interp.Value) (interp.Value, error) {
		if s, ok := a[0].(*interp.Sym); ok {
			if c, isC := s.Concrete(); isC {
				return interp.Lit(filepath.Clean(c)), nil
			}
			return s, nil
		}
		return a[0], nil
	}
	mocker := &interp.Opaque{Kind: "moq.Mocker", ID: "mocker", GoType: "*" + load.PkgMoq + ".Mocker"}
	mocker.Methods = map[string]func(*interp.Machine, token.Pos, []interp.Value) (interp.Value, error){
		"Mock": func(mm *interp.Machine, pos token.Pos, a []interp.Value) (interp.Value, error) {
			var w interp.Value
			if len(a) > 0 {
				w = a[0]
			}
			e, k := errVal("Mock")
			rest := &interp.List{}
			if len(a) > 1 {
				rest.Elems = append(rest.Elems, a[1:]...)
			}
			ev("mock", pos, w, rest, k)
			return e, nil
		},
	}
	m.Ext[load.PkgMoq+".New"] = func(mm *interp.Machine, pos token.Pos, recv interp.Value, a []interp.Value) (interp.Value, error) {
		var cfg interp.Value
		if len(a) > 0 {
			cfg = a[0]
		}
		e, k := errVal("moq.New")
		ev("new", pos, cfg, nil, k)
		return interp.Tuple{mocker, e}, nil
	}
	fsModel := func(name, kind string) {
		m.Ext[name] = func(mm *interp.Machine, pos token.Pos, recv interp.Value, a []interp.Value) (interp.Value, error) {
			var x, y interp.Value
			if len(a) > 0 {
				x = a[0]
			}
			if len(a) > 1 {
				y = a[1]
			}
			e, k := errVal(name)
			ev(kind, pos, x, y, k)
			return e, nil
		}
	}
	fsModel("os.Remove", "remove")
	fsModel("os.MkdirAll", "mkdirall")
	fsModel("os.WriteFile", "writefile")
	// reads of the file system: observed, never an effect
	for _, n := range []string{"os.Stat", "os.Lstat"} {
		n := n
		m.Ext[n] = func(mm *interp.Machine, pos token.Pos, recv interp.Value, a []interp.Value) (interp.Value, error) {
			e, k := errVal(n)
			kind := "stat"
			if n == "os.Lstat" {
				kind = "lstat" // looks at the path itself: a dangling link is seen
			}
			ev(kind, pos, a[0], nil, k)
			fi := &interp.Opaque{Kind: "os.FileInfo", ID: "fileinfo", GoType: "os.FileInfo"}
			return interp.Tuple{fi, e}, nil
		}
	}
	m.Ext["os.ReadFile"] = func(mm *interp.Machine, pos token.Pos, recv interp.Value, a []interp.Value) (interp.Value, error) {
		e, k := errVal("os.ReadFile")
		ev("readfile", pos, a[0], nil, k)
		return interp.Tuple{&interp.Opaque{Kind: "bytes", ID: "file-content", Attrs: map[string]interp.Value{"file": a[0]}}, e}, nil
	}
	m.Ext["bytes.Equal"] = func(mm *interp.Machine, pos token.Pos, recv interp.Value, a []interp.Value) (interp.Value, error) {
		return &interp.Unknown{Why: "bytes.Equal(" + interp.Show(a[0]) + "," + interp.Show(a[1]) + ")"}, nil
	}
	for _, n := range []string{"path/filepath.Abs"} {
		n := n
		m.Ext[n] = func(mm *interp.Machine, pos token.Pos, recv interp.Value, a []interp.Value) (interp.Value, error) {
			e, _ := errVal(n)
			return interp.Tuple{&interp.Unknown{Why: n + "(" + interp.TermOf(a[0]) + ")"}, e}, nil
		}
	}
	m.Ext["path/filepath.Dir"] = func(mm *interp.Machine, pos token.Pos, recv interp.Value, a []interp.Value) (interp.Value, error) {
		if s, ok := a[0].(*interp.Sym); ok {
			return &interp.Unknown{Why: "filepath.Dir(" + s.Flat() + ")"}, nil
		}
		return &interp.Unknown{Why: "filepath.Dir(" + interp.TermOf(a[0]) + ")"}, nil
	}
	m.Ext["(bytes.Buffer).Bytes"] = func(mm *interp.Machine, pos token.Pos, recv interp.Value, a []interp.Value) (interp.Value, error) {
		o, _ := recv.(*interp.Opaque)
		return &interp.Opaque{Kind: "bytes", ID: "bytes-of-buffer", Attrs: map[string]interp.Value{"of": o}}, nil
	}
	mainFn := prog.LookupFunc(load.PkgMain, "main")
	_, err := m.CallFunc(token.NoPos, mainFn, nil, nil)
	if err != nil {
		if ex, ok := err.(*interp.ErrExit); ok {
			p.Exit = ex.Code
		} else {
			if u, ok := err.(*interp.ErrUndecided); ok {
				return nil, fmt.Errorf("abstract interpretation of main (%s): %s (at %s)", env, u.Msg, prog.Pos(u.Pos))
			}
			return nil, err
		}
	}
	for key, val := range choices.Memo() {
		i := strings.Index(key, "error#")
		if i < 0 {
			continue
		}
		var k int
		fmt.Sscanf(key[i:], "error#%d", &k)
		if strings.Contains(key, "notexist(") {
			neg := strings.Count(key[:strings.Index(key, "notexist(")], "!(")%2 == 1
			if val != neg {
				p.NotExist[k] = true
			}
			continue
		}
		if strings.Contains(key, "errors.Is(") {
			continue
		}
		neg := strings.Count(key[:i], "!(")%2 == 1
		if val == neg {
			p.NonNil[k] = true
		}
	}
	p.Choices = choices.Describe()
	p.Indexed = m.Indexed
	return p, nil
}

// cliPathsOf interprets main once per check run.
func cliPathsOf(c *Ctx) []*cliPath {
	if c.cliDone {
		return c.cliPaths
	}
	c.cliDone = true
	if c.Tier == "thorough" {
		cliMaxArgs = 5
	}
	ps, err := cliExplore(c.Prog)
	if err != nil {
		c.Run.Undecided("G-CLI/resolve", "package-main", "main.go", "the command-line front end cannot be interpreted: "+err.Error())
		return nil
	}
	c.cliPaths = ps
	c.Run.Count("cli_paths", len(ps))
	return ps
}

func mainPos(c *Ctx) string {
	if fn := c.Prog.LookupFunc(load.PkgMain, "main"); fn != nil {
		return c.Prog.Pos(fn.Pos())
	}
	return "main.go"
}

// bufferOf: the bytes.Buffer a writer value is or holds (a struct that embeds or contains one).
func bufferOf(v interp.Value) *interp.Opaque {
	switch w := v.(type) {
	case *interp.Opaque:
		if w.Kind == "bytes.Buffer" {
			return w
		}
	case *interp.Ptr:
		return bufferOf(w.Elem)
	case *interp.Struct:
		for _, f := range w.Fields {
			if o, ok := f.(*interp.Opaque); ok && o.Kind == "bytes.Buffer" {
				return o
			}
		}
	}
	return nil
}

func symIs(v interp.Value, want string) bool {
	s, ok := v.(*interp.Sym)
	return ok && s.Flat() == want
}

func describe(p *cliPath) string {
	var ss []string
	for _, e := range p.Events {
		s := e.Kind
		switch e.Kind {
		case "remove", "mkdirall", "writefile":
			s += "(" + interp.TermOf(e.A) + ")"
		case "print":
			if o, ok := e.A.(*interp.Opaque); ok {
				s += "(" + o.ID + ")"
			}
		}
		if e.Err != 0 && p.NonNil[e.Err] {
			s += "=error"
			if p.NotExist[e.Err] {
				s += "(not-exist)"
			}
		}
		ss = append(ss, s)
	}
	return fmt.Sprintf("[%s] %s → exit %d", p.Env, strings.Join(ss, ", "), p.Exit)
}

// cliRemove: C15 — with -rm and -out the file is removed before the package is loaded.
func cliRemove(c *Ctx) {
	run, pos := c.Run, mainPos(c)
	for _, p := range cliPathsOf(c) {
		if p.Env.Version || p.Env.NArgs < 2 {
			continue
		}
		key := p.Env.String() + " " + p.kinds()
		var removes, news []int
		nothingThere := false // os.Lstat of the -out path failed before the load: there is nothing to remove
		for i, e := range p.Events {
			switch e.Kind {
			case "remove":
				removes = append(removes, i)
			case "new":
				news = append(news, i)
			case "lstat":
				if len(news) == 0 && symIs(e.A, tokOut) && (p.NotExist[e.Err] || p.NonNil[e.Err]) {
					nothingThere = true
				}
			}
		}
		if p.Env.Rm && p.Env.Out {
			okBefore := len(removes) == 1 && (len(news) == 0 || removes[0] < news[0]) && symIs(p.Events[removes[0]].A, tokOut)
			if len(removes) == 0 && nothingThere {
				okBefore = true
			}
			run.Check("G-RM/before-load", key, pos, okBefore, "with -rm and -out: "+describe(p)+" — want exactly one removal, of the -out path, before the package is loaded (moq.New): a stale or broken file at -out otherwise takes part in the load")
			if len(removes) == 1 {
				e := p.Events[removes[0]]
				switch {
				case p.NonNil[e.Err] && !p.NotExist[e.Err]:
					run.Check("G-RM/error", "fatal:"+key, pos, len(news) == 0 && p.Exit != 0, "the removal failed for a reason other than a missing file, yet: "+describe(p)+" — want a failure before anything is loaded or written")
				case p.NonNil[e.Err]:
					run.Check("G-RM/error", "not-exist:"+key, pos, len(news) == 1, "the file to remove did not exist, yet: "+describe(p)+" — want the run to go on (there is nothing to remove)")
				default:
					run.Check("G-RM/error", "removed:"+key, pos, len(news) == 1, "the removal succeeded, yet: "+describe(p)+" — want the run to go on to the load")
				}
			}
		} else {
			run.Check("G-RM/only-with-rm", key, pos, len(removes) == 0, "without both -rm and -out: "+describe(p)+" — nothing may be removed")
		}
	}
}

// cliNoReadOfOut (C19): the path named by -out is the user's choice and may be a pipe or a device
// (`-out /dev/stdout | cat`, a FIFO with a reader waiting): reading it can block for ever.
func cliNoReadOfOut(c *Ctx) {
	run, pos := c.Run, mainPos(c)
	for _, p := range cliPathsOf(c) {
		if !p.Env.Out {
			continue
		}
		n := 0
		for _, e := range p.Events {
			if e.Kind == "readfile" && symIs(e.A, tokOut) {
				n++
			}
		}
		run.Check("G-CLI/no-read-of-out", p.Env.String()+" "+p.kinds(), pos, n == 0, "with -out: "+describe(p)+" — the content at the -out path is read; when -out names a pipe or a device the read does not return, and moq hangs instead of writing")
	}
}

// cliAllOrNothing: C16/C17 — what is written where, and only after everything succeeded.
func cliAllOrNothing(c *Ctx) {
	run, pos := c.Run, mainPos(c)
	for _, p := range cliPathsOf(c) {
		key := p.Env.String() + " " + p.kinds() + failKey(p)
		if p.Env.Version {
			okV := p.Exit == 0
			for _, e := range p.Events {
				if e.Kind != "print" {
					okV = false
				} else if o, _ := e.A.(*interp.Opaque); o == nil || o.ID != "stdout" {
					okV = false
				}
			}
			run.Check("G-MAIN/version", key, pos, okV && len(p.Events) > 0, "with -version: "+describe(p)+" — want the version on stdout, exit 0 and nothing else")
			continue
		}
		var mock, mkdir, write *cliEvent
		nWrite, nMkdir, nMock, nNew := 0, 0, 0, 0
		mockAt, writeAt, mkdirAt := -1, -1, -1
		for i := range p.Events {
			e := &p.Events[i]
			switch e.Kind {
			case "mock":
				mock, mockAt = e, i
				nMock++
			case "mkdirall":
				mkdir, mkdirAt = e, i
				nMkdir++
			case "writefile":
				write, writeAt = e, i
				nWrite++
			case "new":
				nNew++
			}
		}
		failed := p.anyFailure() || p.Env.NArgs < 2
		// diagnostics and exit status
		toStderr, toStdout := false, false
		for _, e := range p.Events {
			if e.Kind == "print" {
				if o, _ := e.A.(*interp.Opaque); o != nil && o.ID == "stderr" {
					toStderr = true
				} else if _, isErr := e.B.(*interp.Unknown); isErr {
					toStdout = true // the error value printed somewhere else than stderr
				} else if eo, ok := e.B.(*interp.Opaque); ok && eo.Kind == "error" {
					toStdout = true
				}
			}
		}
		if failed {
			run.Check("G-CLI/errors", "failure:"+key, pos, p.Exit != 0 && toStderr && !toStdout, "a failing run: "+describe(p)+" — want the error on stderr (never on stdout, where a mock may be expected) and a non-zero exit status")
		} else {
			run.Check("G-CLI/errors", "success:"+key, pos, p.Exit == 0 && !toStderr, "a run on which everything succeeded: "+describe(p)+" — want exit status 0 and nothing on stderr")
		}
		if p.Env.NArgs < 2 {
			run.Check("G-CLI/args", key, pos, nNew == 0 && nMock == 0 && nWrite == 0 && nMkdir == 0, "with fewer than two arguments: "+describe(p)+" — want a diagnostic and nothing generated or written")
			continue
		}
		// the writer Mock gets
		if mock != nil {
			w, _ := mock.A.(*interp.Opaque)
			if p.Env.Out {
				run.Check("G-CLI/writer", "buffer:"+key, pos, bufferOf(mock.A) != nil, "with -out set Mock writes into "+interp.Show(mock.A)+": want a local buffer, so that nothing reaches the file (or stdout) before generation has succeeded")
			} else {
				run.Check("G-CLI/writer", "stdout:"+key, pos, w != nil && w.ID == "stdout", "without -out Mock writes into "+interp.Show(mock.A)+": want os.Stdout")
			}
		}
		// always generates: no shortcut around New and Mock
		if !p.failedBefore(len(p.Events)) || (nNew == 1 && nMock == 1) {
			run.Check("G-CLI/always-generates", key, pos, nNew == 1 && nMock == 1, "a run with arguments on which nothing failed: "+describe(p)+" — want the package loaded and the mocks generated on every such run (a \"nothing changed\" shortcut leaves an earlier run's output in place)")
		}
		if !p.Env.Out {
			continue
		}
		// the file
		if !failed {
			okFile := nWrite == 1 && nMkdir == 1 && mkdirAt < writeAt && mockAt < mkdirAt && writeAt == lastEffect(p)
			if okFile {
				okFile = symIs(write.A, tokOut) && interp.TermOf(mkdir.A) == "filepath.Dir("+tokOut+")"
				b, _ := write.B.(*interp.Opaque)
				mw := bufferOf(mock.A)
				okFile = okFile && b != nil && mw != nil && b.Kind == "bytes" && b.Attrs["of"] == interp.Value(mw)
			}
			run.Check("G-CLI/file", "success:"+key, pos, okFile, "with -out set and everything successful: "+describe(p)+" — want, after Mock, os.MkdirAll(filepath.Dir(out)) and then exactly one os.WriteFile(out, <bytes of the buffer Mock wrote into>) as the last effect")
		} else {
			// nothing is written after a failure
			bad := false
			for i, e := range p.Events {
				if (e.Kind == "writefile" || e.Kind == "mkdirall" || e.Kind == "mock" || e.Kind == "new") && p.failedBefore(i) {
					bad = true
				}
			}
			// a failing write is the only write
			run.Check("G-CLI/file", "failure:"+key, pos, !bad && nWrite <= 1, "after a failure nothing more may be generated or written, yet: "+describe(p))
		}
	}
}

func failKey(p *cliPath) string {
	var ks []int
	for k := range p.NonNil {
		ks = append(ks, k)
	}
	sort.Ints(ks)
	s := ""
	for _, k := range ks {
		s += fmt.Sprintf(" e%d", k)
		if p.NotExist[k] {
			s += "ne"
		}
	}
	return s
}

func lastEffect(p *cliPath) int {
	last := -1
	for i, e := range p.Events {
		switch e.Kind {
		case "remove", "mkdirall", "writefile", "new", "mock":
			last = i
		}
	}
	return last
}

// cliEffects: C18 — nothing but the -out file is touched.
func cliEffects(c *Ctx) {
	run, pos := c.Run, mainPos(c)
	for _, p := range cliPathsOf(c) {
		key := p.Env.String() + " " + p.kinds() + failKey(p)
		var fs []string
		okOperand := true
		for _, e := range p.Events {
			switch e.Kind {
			case "remove", "writefile":
				fs = append(fs, e.Kind)
				if !symIs(e.A, tokOut) {
					okOperand = false
				}
			case "mkdirall":
				fs = append(fs, e.Kind)
				if interp.TermOf(e.A) != "filepath.Dir("+tokOut+")" {
					okOperand = false
				}
			}
		}
		if !p.Env.Out || p.Env.Version {
			run.Check("G-EFF/no-out-no-effect", key, pos, len(fs) == 0, "without -out (or with -version): "+describe(p)+" — nothing may be created, changed or deleted")
		} else {
			run.Check("G-EFF/operand", key, pos, okOperand, "file-system effects apply to something else than the -out path (its directory for MkdirAll): "+describe(p))
		}
		if !p.Env.Rm {
			n := 0
			for _, k := range fs {
				if k == "remove" {
					n++
				}
			}
			run.Check("G-EFF/remove-only-with-rm", key, pos, n == 0, "without -rm: "+describe(p)+" — nothing may be removed")
		}
	}
}

// cliFlag: a flag's value reaches moq.Config unchanged (C07, C08, C16).
func cliFlag(c *Ctx, flagName string) {
	run, pos := c.Run, mainPos(c)
	field := map[string]string{"stub": "StubImpl", "skip-ensure": "SkipEnsure", "with-resets": "WithResets", "fmt": "Formatter", "pkg": "PkgName"}[flagName]
	n := 0
	for _, p := range cliPathsOf(c) {
		if !run.Check("G-FLAGS/bound", flagName+":"+p.Env.String(), pos, p.Bound[flagName], "no command-line flag named \""+flagName+"\" is declared on the way to this run") {
			continue
		}
		for _, e := range p.Events {
			if e.Kind != "new" {
				continue
			}
			n++
			cfg, _ := e.A.(*interp.Struct)
			got := "<no Config>"
			ok := false
			if cfg != nil {
				v := cfg.Fields[field]
				got = interp.TermOf(v)
				switch flagName {
				case "fmt", "pkg":
					ok = symIs(v, "«"+flagName+"»")
				default:
					u, isU := v.(*interp.Unknown)
					ok = isU && u.Why == "flag:"+flagName
					// the value was decided on this path (flag.Visit): the field holds that decision
					if b, isB := v.(bool); isB {
						if d, decided := p.FlagDecided[flagName]; decided && d == b {
							ok = true
						}
					}
				}
				// the other fields: the source directory is the first argument
				if sd, has := cfg.Fields["SrcDir"]; has && !symIs(sd, "«arg0»") {
					run.Check("G-FLAGS/config", "SrcDir:"+p.Env.String(), pos, false, "Config.SrcDir is "+interp.TermOf(sd)+", want the first positional argument")
				}
			}
			run.Check("G-FLAGS/config", flagName+":"+p.Env.String()+" "+failKey(p), pos, ok, fmt.Sprintf("flag -%s reaches moq.New as Config.%s = %s, want the flag's value itself — a negation, a conjunction with another flag or a missing line changes what the user asked for", flagName, field, got))
		}
		// the interfaces asked for are the remaining arguments, in order
		for _, e := range p.Events {
			if e.Kind != "mock" {
				continue
			}
			l, _ := e.B.(*interp.List)
			ok := l != nil && len(l.Elems) == p.Env.NArgs-1
			if ok {
				for i, a := range l.Elems {
					if !symIs(a, fmt.Sprintf("«arg%d»", i+1)) {
						ok = false
					}
				}
			}
			run.Check("G-FLAGS/args", p.Env.String()+" "+failKey(p), pos, ok, "Mock is asked for "+interp.Show(e.B)+", want the positional arguments after the source directory, in order")
		}
	}
	run.Check("G-FLAGS/config", flagName+":reaches-New", pos, n > 0, "no explored run reaches moq.New")
}

// cliAlwaysGenerates and cliFileReplaced are the C14/C07/C08/C15 views of cliAllOrNothing.
func cliAlwaysGenerates(c *Ctx) {
	run, pos := c.Run, mainPos(c)
	for _, p := range cliPathsOf(c) {
		if p.Env.Version || p.Env.NArgs < 2 || p.anyFailure() {
			continue
		}
		nNew, nMock := 0, 0
		for _, e := range p.Events {
			if e.Kind == "new" {
				nNew++
			}
			if e.Kind == "mock" {
				nMock++
			}
		}
		run.Check("G-CLI/always-generates", p.Env.String(), pos, nNew == 1 && nMock == 1, "a run with arguments on which nothing failed: "+describe(p)+" — want the package loaded and the mocks generated on every such run")
	}
}

func cliFileReplaced(c *Ctx) {
	run, pos := c.Run, mainPos(c)
	n := 0
	for _, p := range cliPathsOf(c) {
		if !p.Env.Out || p.Env.Version || p.Env.NArgs < 2 || p.anyFailure() {
			continue
		}
		n++
		nw := 0
		var w *cliEvent
		for i := range p.Events {
			if p.Events[i].Kind == "writefile" {
				nw++
				w = &p.Events[i]
			}
		}
		ok := nw == 1 && symIs(w.A, tokOut)
		if ok {
			b, _ := w.B.(*interp.Opaque)
			ok = b != nil && b.Kind == "bytes"
		}
		run.Check("G-FILE/replaced", p.Env.String(), pos, ok, "the -out file is not written by exactly one os.WriteFile(<-out path>, <the whole generated buffer>): "+describe(p)+" — os.WriteFile creates or truncates; any other way of writing is outside the modelled vocabulary")
	}
	run.Check("G-FILE/replaced", "reached", pos, n > 0, "no explored run writes the -out file")
}

// cliIndexOracle serves gen.CLIIndexed: the index and slice expressions of package main that the
// interpretation of main evaluated in range, on every path that reached them, for every number of
// positional arguments up to cliMaxArgs (an out-of-range index stops the interpretation with an error).
func cliIndexOracle(c *Ctx) func() (map[token.Pos]bool, int, bool) {
	var sites map[token.Pos]bool
	done, ok := false, false
	return func() (map[token.Pos]bool, int, bool) {
		if done {
			return sites, cliMaxArgs, ok
		}
		done = true
		if c.Tier == "thorough" {
			cliMaxArgs = 5
		}
		ps := c.cliPaths
		if !c.cliDone {
			var err error
			if ps, err = cliExplore(c.Prog); err != nil {
				return nil, cliMaxArgs, false
			}
			c.cliDone, c.cliPaths = true, ps
		}
		if ps == nil {
			return nil, cliMaxArgs, false
		}
		sites = map[token.Pos]bool{}
		for _, p := range ps {
			for pos := range p.Indexed {
				sites[pos] = true
			}
		}
		ok = true
		return sites, cliMaxArgs, ok
	}
}
