package main

import (
	"fmt"
	"os"

	"verif/checker/internal/interp"
	"verif/checker/internal/load"
	"verif/checker/internal/tmpl"
)

func main() {
	prog, err := load.Load("/repo")
	if err != nil {
		fmt.Println(err)
		os.Exit(2)
	}
	src, err := tmpl.Extract(prog)
	if err != nil {
		fmt.Println(err)
		os.Exit(2)
	}
	fmt.Println(src.NodeCount)
	env := tmpl.Env{Stub: true, WithResets: true, External: true, Mocks: []tmpl.MockShape{{TypeParams: []tmpl.TPShape{{}, {Explicit: true}}, Methods: []tmpl.MethodShape{{NParams: 2, Variadic: true, NResults: 2}, {}}}}}
	model := tmpl.BuildModel(env)
	sk, err := tmpl.Expand(src, func() *interp.Machine { m := interp.New(prog); tmpl.InstallTypesModels(m, prog); return m }, model, nil)
	if err != nil {
		fmt.Printf("ERR %#v\n", err)
		os.Exit(1)
	}
	for _, s := range sk {
		fmt.Println(s.Text)
		fmt.Println(s.Notes)
	}
}
