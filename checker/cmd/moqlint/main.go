// Command moqlint decides the moq properties by static analysis of /repo.
package main

import (
	"flag"
	"fmt"
	"os"
	"path/filepath"
	"runtime/pprof"
	"sort"

	"verif/checker/internal/core"
	"verif/checker/internal/load"
	"verif/checker/internal/props"
)

func main() {
	prop := flag.String("property", "", "property id (C01..C20)")
	tier := flag.String("tier", "", "quick or thorough")
	repo := flag.String("repo", "/repo", "repository to analyse")
	root := flag.String("verif", "", "verification root (default: parent of the directory holding this binary)")
	replay := flag.String("replay", "", "replay file written by an earlier run: re-run the property and show that finding again")
	flag.Parse()
	if pf := os.Getenv("MOQLINT_CPUPROFILE"); pf != "" {
		if f, err := os.Create(pf); err == nil {
			pprof.StartCPUProfile(f)
			defer pprof.StopCPUProfile()
		}
	}
	if *tier == "" {
		*tier = os.Getenv("VERIF_TIER")
	}
	if *tier != "thorough" {
		*tier = "quick"
	}
	if *root == "" {
		exe, err := os.Executable()
		if err == nil {
			*root = filepath.Dir(filepath.Dir(exe))
		} else {
			*root = "/verif"
		}
	}
	if *prop == "all" {
		// development aid (never a manifest command): every property on one load of the repository
		prog, err := load.Load(*repo)
		if err != nil {
			fmt.Fprintln(os.Stderr, "load:", err)
			os.Exit(2)
		}
		ids := make([]string, 0, len(props.All))
		for id := range props.All {
			ids = append(ids, id)
		}
		sort.Strings(ids)
		code := 0
		for _, id := range ids {
			func() {
				run := core.NewRun(id, *tier, props.All[id].Level, *root)
				defer func() {
					if r := recover(); r != nil {
						run.Undecided("checker", "panic", "-", fmt.Sprintf("checker panic: %v", r))
						if run.Finish() != 0 {
							code = 1
						}
					}
				}()
				run.Count("packages_loaded", len(prog.All))
				run.Count("moq_packages", len(prog.Moq))
				props.All[id].Check(&props.Ctx{Prog: prog, Run: run, Tier: *tier})
				if run.Finish() != 0 {
					code = 1
				}
			}()
		}
		exit(code)
	}
	p, ok := props.All[*prop]
	if !ok {
		fmt.Fprintf(os.Stderr, "unknown property %q\n", *prop)
		os.Exit(2)
	}
	run := core.NewRun(*prop, *tier, p.Level, *root)
	defer func() {
		if r := recover(); r != nil {
			run.Undecided("checker", "panic", "-", fmt.Sprintf("checker panic: %v", r))
			exit(run.Finish())
		}
	}()
	prog, err := load.Load(*repo)
	if err != nil {
		run.Undecided("load", "repository", *repo, "the repository cannot be loaded and type-checked, nothing can be decided: "+err.Error())
		exit(run.Finish())
	}
	run.Count("packages_loaded", len(prog.All))
	run.Count("moq_packages", len(prog.Moq))
	ctx := &props.Ctx{Prog: prog, Run: run, Tier: *tier}
	p.Check(ctx)
	if *replay != "" {
		run.Replay = *replay
	}
	exit(run.Finish())
}

func exit(code int) {
	pprof.StopCPUProfile()
	os.Exit(code)
}
